//go:build verif

package arvados

import (
	"encoding/hex"
	"fmt"
	"io"
	"os"
	"sort"
	"testing"
)

var c08Paths = []string{
	"a", "b", "d", "e", "d/a", "d/b", "d/e", "d/e/a", "e/a", "./a", "d/../a", "d/", "d/.", "a/", "a/b",
	"", ".", "..", "d/e/..", "/a", "d//b", "d/e/", "x/y", "d/..", "./d/./e", "a b", "d/a:b",
}

func c08Path(r *vRand, known []string) string {
	if len(known) > 0 && r.Chance(1, 2) {
		return known[r.Intn(len(known))]
	}
	if r.Chance(3, 4) {
		return c08Paths[r.Intn(12)]
	}
	return c08Paths[r.Intn(len(c08Paths))]
}

// paths a worker confined to its own directory may use (relative to that directory)
var c13WorkerPaths = []string{"a", "b", "d", "d/a", "d/b", "e", "d/e", "x/y", "a/b", "d/", "./a", "d/./b"}

func c08ErrObs(err error) string { return "VErr " + cfsErr(err) }

func c08Bytes(b []byte) string { return `(B "` + hex.EncodeToString(b) + `")` }

func c08Info(fi os.FileInfo) string {
	return fmt.Sprintf("VInfo %s %d", gBool(fi.IsDir()), fi.Size())
}

// cfsSess is one collection filesystem under test with the handles opened so far.
type cfsSess struct {
	t      *testing.T
	fs     CollectionFileSystem
	mb     int
	hs     []File
	known  []string // paths that were created successfully at some point
	prefix string   // non-empty: every path this session uses lies under this directory
	tagset map[string]bool
	// stratum "namespace churn": one operation in three is a mkdir or a rename between this
	// session's directories (lock-order hazards against concurrent Flush/MarshalManifest/Readdir)
	churn bool
}

func (se *cfsSess) pathWith(r *vRand, known []string) string {
	if se.prefix == "" {
		return c08Path(r, known)
	}
	if len(known) > 0 && r.Chance(1, 2) {
		return known[r.Intn(len(known))]
	}
	return se.prefix + c13WorkerPaths[r.Intn(len(c13WorkerPaths))]
}

func (se *cfsSess) tag(s string) { se.tagset[s] = true }
func (se *cfsSess) tags() []string {
	var tags []string
	for k := range se.tagset {
		tags = append(tags, k)
	}
	sort.Strings(tags)
	return tags
}

// readAll performs "open name read-only; read everything" as two model operations.
func (se *cfsSess) readAll(name string, add func(op, ob, d string)) {
	f, err := se.fs.OpenFile(name, os.O_RDONLY, 0)
	op := fmt.Sprintf("OOpen %s (FL 0 false false false false false)", gStr(name))
	if err != nil {
		add(op, c08ErrObs(err), fmt.Sprintf("open %q", name))
		return
	}
	se.hs = append(se.hs, f)
	h := len(se.hs) - 1
	add(op, fmt.Sprintf("VNat %d", h), fmt.Sprintf("open %q", name))
	fi, err := f.Stat()
	if err != nil || fi.IsDir() {
		return
	}
	n := int(fi.Size()) + 3
	buf := make([]byte, n)
	got := 0
	eof := false
	for got < n {
		c, err := f.Read(buf[got:])
		got += c
		if err == io.EOF {
			eof = true
			break
		}
		if err != nil || c == 0 {
			se.t.Fatalf("readAll %q: %v", name, err)
		}
	}
	add(fmt.Sprintf("ORead %d %d", h, n), fmt.Sprintf("VData %s %s", c08Bytes(buf[:got]), gBool(eof)), fmt.Sprintf("read all of %q", name))
}

// recRead/recSeek/recWrite perform one recorded operation on handle h (same encoding as randomOp).
func (se *cfsSess) recRead(h, n int, add func(op, ob, d string)) {
	buf := make([]byte, n)
	got, eof := 0, false
	var rerr error
	for got < n {
		c, err := se.hs[h].Read(buf[got:])
		got += c
		if err == io.EOF {
			eof = true
			break
		}
		if err != nil {
			rerr = err
			break
		}
		if c == 0 {
			rerr = fmt.Errorf("read returned 0 bytes without error")
			break
		}
	}
	op := fmt.Sprintf("ORead %d %d", h, n)
	if rerr != nil {
		add(op, c08ErrObs(rerr), fmt.Sprintf("read h%d %d", h, n))
		return
	}
	add(op, fmt.Sprintf("VData %s %s", c08Bytes(buf[:got]), gBool(eof)), fmt.Sprintf("read h%d %d", h, n))
}

func (se *cfsSess) recSeek(h, off int, add func(op, ob, d string)) {
	pos, err := se.hs[h].Seek(int64(off), 0)
	op := fmt.Sprintf("OSeek %d %d false 0", h, off)
	if err != nil {
		add(op, c08ErrObs(err), fmt.Sprintf("seek h%d %d", h, off))
		return
	}
	add(op, fmt.Sprintf("VNat %d", pos), fmt.Sprintf("seek h%d %d", h, off))
}

func (se *cfsSess) recWrite(r *vRand, h, n int, add func(op, ob, d string)) {
	data := make([]byte, n)
	for j := range data {
		data[j] = byte(1 + r.Intn(250))
	}
	wn, err := se.hs[h].Write(data)
	ob := fmt.Sprintf("VNat %d", wn)
	if err != nil {
		ob = c08ErrObs(err)
	}
	add(fmt.Sprintf("OWrite %d %s", h, c08Bytes(data)), ob, fmt.Sprintf("write h%d %d bytes", h, n))
}

// firstTouch opens a file that came with the loaded manifest and makes one specific first mutation
// or read on it (the state "loaded, never touched" is left by the first write, so random histories
// rarely exercise each kind of first operation on it).
func (se *cfsSess) firstTouch(r *vRand, name string, add func(op, ob, d string)) {
	f, err := se.fs.OpenFile(name, os.O_RDWR, 0)
	op := fmt.Sprintf("OOpen %s (FL 2 false false false false false)", gStr(name))
	if err != nil {
		add(op, c08ErrObs(err), fmt.Sprintf("open %q", name))
		return
	}
	se.hs = append(se.hs, f)
	h := len(se.hs) - 1
	add(op, fmt.Sprintf("VNat %d", h), fmt.Sprintf("open %q", name))
	size := int(f.Size())
	if size >= 3 && r.Chance(1, 4) {
		// two handles on the never-touched file: the second one reads a byte somewhere inside (so its
		// position is cached inside a stored segment), then the first overwrites from at or before that
		// point through the end of the file (or a bit further / shorter), then the second continues
		// without seeking again
		f2, err := se.fs.OpenFile(name, os.O_RDWR, 0)
		op2 := fmt.Sprintf("OOpen %s (FL 2 false false false false false)", gStr(name))
		if err != nil {
			add(op2, c08ErrObs(err), fmt.Sprintf("open %q", name))
			return
		}
		se.hs = append(se.hs, f2)
		h2 := len(se.hs) - 1
		add(op2, fmt.Sprintf("VNat %d", h2), fmt.Sprintf("open %q", name))
		k := 1 + r.Intn(size-2)
		se.recSeek(h2, k, add)
		se.recRead(h2, 1, add)
		m := 1 + r.Intn(k)
		se.recSeek(h, m, add)
		se.recWrite(r, h, size-m+[]int{0, 0, 0, 1, -1}[r.Intn(5)], add)
		se.recRead(h2, size, add)
		se.recWrite(r, h2, 1+r.Intn(2), add)
		se.tag("first-two-handle-tail-overwrite")
		se.readAll(name, add)
		return
	}
	switch r.Intn(5) {
	case 0, 1: // truncate somewhere inside (or at the ends of) the file
		n := r.Intn(size + 2)
		err := f.Truncate(int64(n))
		ob := "VUnit"
		if err != nil {
			ob = c08ErrObs(err)
		}
		add(fmt.Sprintf("OTrunc %d %d", h, n), ob, fmt.Sprintf("truncate h%d %d (first touch, size %d)", h, n, size))
		se.tag("first-truncate")
	case 2, 3: // seek inside, then write
		off := r.Intn(size + 2)
		pos, err := f.Seek(int64(off), 0)
		if err != nil {
			add(fmt.Sprintf("OSeek %d %d false 0", h, off), c08ErrObs(err), "seek")
			return
		}
		add(fmt.Sprintf("OSeek %d %d false 0", h, off), fmt.Sprintf("VNat %d", pos), fmt.Sprintf("seek h%d %d", h, off))
		data := make([]byte, 1+r.Intn(2*se.mb+1))
		for j := range data {
			data[j] = byte(1 + r.Intn(250))
		}
		wn, err := f.Write(data)
		ob := fmt.Sprintf("VNat %d", wn)
		if err != nil {
			ob = c08ErrObs(err)
		}
		add(fmt.Sprintf("OWrite %d %s", h, c08Bytes(data)), ob, fmt.Sprintf("write h%d %d bytes (first touch)", h, len(data)))
		se.tag("first-write")
	default:
	}
	// read everything back through a second handle
	se.readAll(name, add)
}

// probeNested exercises what depends on the parent pointers of directories that came with a loaded
// manifest: a rename of an ancestor into its own descendant (must be refused) and ".." below a nested
// directory (must name the real parent).
func (se *cfsSess) probeNested(r *vRand, add func(op, ob, d string)) {
	se.tag("nested-parent-probe")
	if r.Bool() {
		a, b := "d", "d/e/"+[]string{"x", "moved", "d"}[r.Intn(3)]
		err := se.fs.Rename(a, b)
		ob := "VUnit"
		if err != nil {
			ob = c08ErrObs(err)
		}
		add("ORename "+gStr(a)+" "+gStr(b), ob, fmt.Sprintf("rename %q %q", a, b))
	}
	for _, name := range []string{"d/e/..", "d/e/../e", "d/e/../.."}[r.Intn(3):] {
		fi, err := se.fs.Stat(name)
		op := "OStat " + gStr(name)
		if err != nil {
			add(op, c08ErrObs(err), op)
		} else {
			add(op, c08Info(fi), op)
		}
		f, err := se.fs.OpenFile(name, os.O_RDONLY, 0)
		op = fmt.Sprintf("OOpen %s (FL 0 false false false false false)", gStr(name))
		if err != nil {
			add(op, c08ErrObs(err), fmt.Sprintf("open %q", name))
			continue
		}
		se.hs = append(se.hs, f)
		h := len(se.hs) - 1
		add(op, fmt.Sprintf("VNat %d", h), fmt.Sprintf("open %q", name))
		fis, err := f.Readdir(0)
		op = fmt.Sprintf("OReaddir %d", h)
		if err != nil {
			add(op, c08ErrObs(err), op)
			continue
		}
		sort.Slice(fis, func(i, j int) bool { return fis[i].Name() < fis[j].Name() })
		var es []string
		for _, fi := range fis {
			es = append(es, fmt.Sprintf("(%s, (%s, %d))", gStr(fi.Name()), gBool(fi.IsDir()), fi.Size()))
		}
		add(op, "VList "+gList(es), op)
	}
}

// scriptCreateWrite: open name (create, read-write) and write n random bytes through the new handle.
func (se *cfsSess) scriptCreateWrite(r *vRand, name string, n int, add func(op, ob, d string)) {
	f, err := se.fs.OpenFile(name, os.O_RDWR|os.O_CREATE, 0644)
	op := fmt.Sprintf("OOpen %s (FL 2 true false false false false)", gStr(name))
	if err != nil {
		add(op, c08ErrObs(err), fmt.Sprintf("open %q", name))
		return
	}
	se.hs = append(se.hs, f)
	se.known = append(se.known, name)
	h := len(se.hs) - 1
	add(op, fmt.Sprintf("VNat %d", h), fmt.Sprintf("create %q", name))
	data := make([]byte, n)
	for j := range data {
		data[j] = byte(1 + r.Intn(250))
	}
	wn, err := f.Write(data)
	ob := fmt.Sprintf("VNat %d", wn)
	if err != nil {
		ob = c08ErrObs(err)
	}
	add(fmt.Sprintf("OWrite %d %s", h, c08Bytes(data)), ob, fmt.Sprintf("write h%d %d bytes", h, n))
	se.tag("write-ok")
}

// scriptMutate: through handle h, either truncate to a size inside the file, or seek inside and write.
func (se *cfsSess) scriptMutate(r *vRand, h int, add func(op, ob, d string)) {
	if h >= len(se.hs) {
		return
	}
	f := se.hs[h]
	size := int(f.Size())
	if r.Chance(1, 2) {
		n := r.Intn(size + 2)
		if size > 1 && r.Chance(2, 3) {
			n = 1 + r.Intn(size-1) // strictly inside
			if se.mb > 1 && r.Bool() {
				// cut inside the last segment (which may be shared with a background write)
				k := se.mb - 1
				if k > size-1 {
					k = size - 1
				}
				n = size - 1 - r.Intn(k)
			}
		}
		err := f.Truncate(int64(n))
		ob := "VUnit"
		if err != nil {
			ob = c08ErrObs(err)
		}
		add(fmt.Sprintf("OTrunc %d %d", h, n), ob, fmt.Sprintf("truncate h%d %d (size %d)", h, n, size))
		se.tag("truncate-ok")
		return
	}
	off := r.Intn(size + 2)
	pos, err := f.Seek(int64(off), 0)
	if err != nil {
		add(fmt.Sprintf("OSeek %d %d false 0", h, off), c08ErrObs(err), "seek")
		return
	}
	add(fmt.Sprintf("OSeek %d %d false 0", h, off), fmt.Sprintf("VNat %d", pos), fmt.Sprintf("seek h%d %d", h, off))
	data := make([]byte, 1+r.Intn(se.mb+1))
	for j := range data {
		data[j] = byte(1 + r.Intn(250))
	}
	wn, err := f.Write(data)
	ob := fmt.Sprintf("VNat %d", wn)
	if err != nil {
		ob = c08ErrObs(err)
	}
	add(fmt.Sprintf("OWrite %d %s", h, c08Bytes(data)), ob, fmt.Sprintf("write h%d %d bytes at %d", h, len(data), off))
}

// randomOp performs one random foreground operation (step i of the history) and reports it through add.
// readonly restricts the choice to operations that cannot modify the filesystem.
func (se *cfsSess) randomOp(r *vRand, focus bool, i int, readonly bool, add func(op, ob, d string)) {
	fs, mb := se.fs, se.mb
	hs, known := se.hs, se.known
	defer func() { se.hs, se.known = hs, known }()
	tag := se.tag
	k := r.Intn(100)
	if se.churn && !focus && !readonly && len(hs) > 0 && r.Chance(1, 3) {
		if len(known) < 2 || r.Chance(1, 4) {
			k = 85 // mkdir
		} else {
			k = 90 // rename
		}
	}
	if focus {
		// stratum "data path": a file with stored segments, several handles; mostly write/seek/read
		switch {
		case i == 0:
			k = 0
		case i == 1:
			k = 20
		case i == 2:
			k = 0
		default:
			k = []int{20, 20, 20, 20, 40, 40, 40, 60, 60, 60, 72, 5, 78}[r.Intn(13)]
		}
	}
	if readonly {
		// read, seek, stat, readdir only
		k = []int{40, 40, 60, 78, 81, 99}[r.Intn(6)]
		if len(hs) == 0 {
			k = 99
		}
	}
	switch {
	case !readonly && (k < 18 || len(hs) == 0): // open
		name := se.pathWith(r, known)
		if focus {
			name = se.prefix + "a"
		}
		acc := []int{2, 2, 2, 0, 1}[r.Intn(5)]
		if focus {
			acc = 2
		}
		if r.Chance(1, 40) {
			acc = 3
		}
		cr, ex, tr, ap, sy := r.Chance(2, 3), r.Chance(1, 8), r.Chance(1, 8), r.Chance(1, 5), r.Chance(1, 150)
		if focus {
			cr, ex, tr, sy = true, false, false, false
			ap = ap && i > 2 && r.Bool()
		}
		flag := []int{os.O_RDONLY, os.O_WRONLY, os.O_RDWR, os.O_WRONLY | os.O_RDWR}[acc]
		if cr {
			flag |= os.O_CREATE
		}
		if ex {
			flag |= os.O_EXCL
		}
		if tr {
			flag |= os.O_TRUNC
		}
		if ap {
			flag |= os.O_APPEND
		}
		if sy {
			flag |= os.O_SYNC
		}
		f, err := fs.OpenFile(name, flag, 0644)
		op := fmt.Sprintf("OOpen %s (FL %d %s %s %s %s %s)", gStr(name), acc, gBool(cr), gBool(ex), gBool(tr), gBool(ap), gBool(sy))
		if err != nil {
			add(op, c08ErrObs(err), fmt.Sprintf("open %q flags=%#x", name, flag))
			tag("open-" + cfsErr(err))
		} else {
			hs = append(hs, f)
			if cr {
				known = append(known, name)
			}
			add(op, fmt.Sprintf("VNat %d", len(hs)-1), fmt.Sprintf("open %q flags=%#x", name, flag))
			tag("open-ok")
		}
	case k < 38: // write
		h := r.Intn(len(hs))
		n := r.Intn(3*mb + 3)
		if r.Chance(1, 2) {
			n = 1 + r.Intn(mb)
		} else if r.Chance(1, 10) {
			n = 0
		}
		if focus && i == 1 {
			n = 2*mb + 1 + r.Intn(2*mb+1)
		}
		data := make([]byte, n)
		for j := range data {
			data[j] = byte(1 + r.Intn(250))
		}
		wn, err := hs[h].Write(data)
		op := fmt.Sprintf("OWrite %d %s", h, c08Bytes(data))
		if err != nil {
			add(op, c08ErrObs(err), fmt.Sprintf("write h%d %d bytes", h, n))
			tag("write-" + cfsErr(err))
		} else {
			add(op, fmt.Sprintf("VNat %d", wn), fmt.Sprintf("write h%d %d bytes", h, n))
			tag("write-ok")
			if n > mb {
				tag("write-multiblock")
			}
		}
	case k < 58: // read (loop until n bytes, EOF or error)
		h := r.Intn(len(hs))
		n := 1 + r.Intn(3*mb+2) // n >= 1: with n = 0 the caller's loop would not call Read at all
		buf := make([]byte, n)
		got := 0
		eof := false
		var rerr error
		for got < n {
			c, err := hs[h].Read(buf[got:])
			got += c
			if err == io.EOF {
				eof = true
				break
			}
			if err != nil {
				rerr = err
				break
			}
			if c == 0 {
				rerr = fmt.Errorf("read returned 0 bytes without error")
				break
			}
		}
		op := fmt.Sprintf("ORead %d %d", h, n)
		if rerr != nil {
			add(op, c08ErrObs(rerr), fmt.Sprintf("read h%d %d", h, n))
			tag("read-" + cfsErr(rerr))
		} else {
			add(op, fmt.Sprintf("VData %s %s", c08Bytes(buf[:got]), gBool(eof)), fmt.Sprintf("read h%d %d", h, n))
			tag("read-ok")
		}
	case k < 70: // seek
		h := r.Intn(len(hs))
		wh := r.Intn(3)
		off := r.Intn(4*mb + 2)
		neg := r.Chance(1, 4)
		if r.Chance(1, 2) {
			// somewhere inside the current content
			wh, neg, off = 0, false, r.Intn(int(hs[h].Size())+2)
		}
		o := int64(off)
		if neg {
			o = -o
		}
		pos, err := hs[h].Seek(o, wh)
		op := fmt.Sprintf("OSeek %d %d %s %d", h, off, gBool(neg), wh)
		if err != nil {
			add(op, c08ErrObs(err), fmt.Sprintf("seek h%d %d whence %d", h, o, wh))
			tag("seek-" + cfsErr(err))
		} else {
			add(op, fmt.Sprintf("VNat %d", pos), fmt.Sprintf("seek h%d %d whence %d", h, o, wh))
		}
	case k < 77: // truncate
		h := r.Intn(len(hs))
		n := r.Intn(4*mb + 2)
		err := hs[h].Truncate(int64(n))
		op := fmt.Sprintf("OTrunc %d %d", h, n)
		if err != nil {
			add(op, c08ErrObs(err), fmt.Sprintf("truncate h%d %d", h, n))
		} else {
			add(op, "VUnit", fmt.Sprintf("truncate h%d %d", h, n))
			tag("truncate-ok")
		}
	case k < 80: // handle stat
		h := r.Intn(len(hs))
		fi, err := hs[h].Stat()
		op := fmt.Sprintf("OHStat %d", h)
		if err != nil {
			add(op, c08ErrObs(err), op)
		} else {
			add(op, c08Info(fi), op)
		}
	case k < 84: // readdir
		h := r.Intn(len(hs))
		fis, err := hs[h].Readdir(0)
		op := fmt.Sprintf("OReaddir %d", h)
		if err != nil {
			add(op, c08ErrObs(err), op)
		} else {
			sort.Slice(fis, func(i, j int) bool { return fis[i].Name() < fis[j].Name() })
			var es []string
			for _, fi := range fis {
				es = append(es, fmt.Sprintf("(%s, (%s, %d))", gStr(fi.Name()), gBool(fi.IsDir()), fi.Size()))
			}
			add(op, "VList "+gList(es), op)
			tag("readdir-ok")
		}
	case k < 88: // mkdir
		name := se.pathWith(r, nil)
		err := fs.Mkdir(name, 0755)
		op := "OMkdir " + gStr(name)
		if err != nil {
			add(op, c08ErrObs(err), fmt.Sprintf("mkdir %q", name))
			tag("mkdir-" + cfsErr(err))
		} else {
			known = append(known, name)
			add(op, "VUnit", fmt.Sprintf("mkdir %q", name))
			tag("mkdir-ok")
		}
	case k < 93: // rename
		a, b := se.pathWith(r, known), se.pathWith(r, known)
		err := fs.Rename(a, b)
		op := "ORename " + gStr(a) + " " + gStr(b)
		if err != nil {
			add(op, c08ErrObs(err), fmt.Sprintf("rename %q %q", a, b))
			tag("rename-" + cfsErr(err))
		} else {
			known = append(known, b)
			add(op, "VUnit", fmt.Sprintf("rename %q %q", a, b))
			tag("rename-ok")
		}
	case k < 96: // remove
		name := se.pathWith(r, known)
		err := fs.Remove(name)
		op := "ORemove " + gStr(name)
		if err != nil {
			add(op, c08ErrObs(err), fmt.Sprintf("remove %q", name))
			tag("remove-" + cfsErr(err))
		} else {
			add(op, "VUnit", fmt.Sprintf("remove %q", name))
			tag("remove-ok")
		}
	default: // stat
		name := se.pathWith(r, known)
		fi, err := fs.Stat(name)
		op := "OStat " + gStr(name)
		if err != nil {
			add(op, c08ErrObs(err), fmt.Sprintf("stat %q", name))
		} else {
			add(op, c08Info(fi), fmt.Sprintf("stat %q", name))
		}
	}
}
