//go:build verif

package arvados

import (
	"encoding/hex"
	"fmt"
	"io"
	"os"
	"runtime"
	"sort"
	"strings"
	"sync"
	"testing"
	"time"
)

// cfsCtl drives one collection filesystem with gated Keep writes and records the event history
// in the vocabulary of coq/model/CFS_run.v.
type cfsCtl struct {
	t              *testing.T
	r              *vRand
	kc             *cfsKeep
	api            *cfsAPI
	se             *cfsSess
	base           int // goroutines when nothing is in flight
	events         []string
	desc           []string
	initTxt        string
	initTab        [][2]string // (hex data, locator) of the blocks of the initial manifest
	dirty          bool        // a save has failed: only read-only operations until the next successful save
	dead           bool        // an operation did not return: the history ends
	releaseBlocked bool        // runOp releases parked writes as soon as the call is seen waiting
	forceInflight  bool        // the next save starts while writes are in flight (if any)
}

// cfsAPI is the API client the filesystem saves through: it records every collection update.
type cfsAPI struct {
	mtx  sync.Mutex
	puts []string
}

func (a *cfsAPI) RequestAndDecode(dst interface{}, method, path string, body io.Reader, params interface{}) error {
	a.mtx.Lock()
	defer a.mtx.Unlock()
	if method == "PUT" {
		txt := "NOT-SAVED: update without manifest_text"
		if m, ok := params.(map[string]interface{}); ok {
			if coll, ok := m["collection"].(map[string]string); ok {
				if t, ok := coll["manifest_text"]; ok {
					txt = t
				}
			}
		}
		a.puts = append(a.puts, txt)
	}
	return nil
}

func (a *cfsAPI) count() int {
	a.mtx.Lock()
	defer a.mtx.Unlock()
	return len(a.puts)
}

func (a *cfsAPI) since(n int) []string {
	a.mtx.Lock()
	defer a.mtx.Unlock()
	return append([]string{}, a.puts[n:]...)
}

// cfsDeadCases counts histories that ended in a deadlock; after a few the stage stops generating
// (every one of them costs the watchdog's deadline and leaks its blocked goroutines).
var cfsDeadCases int

func cfsBytes(b []byte) string { return `(B "` + hex.EncodeToString(b) + `")` }

func newCfsCtl(t *testing.T, r *vRand, mb int, gated bool, initTxt string, initBlocks [][]byte) *cfsCtl {
	maxBlockSize = mb
	kc := newCfsKeep()
	c := &cfsCtl{t: t, r: r, kc: kc, initTxt: initTxt}
	for _, b := range initBlocks {
		loc := kc.preload(b)
		c.initTab = append(c.initTab, [2]string{hex.EncodeToString(b), loc})
	}
	c.api = &cfsAPI{}
	fs, err := (&Collection{UUID: "zzzzz-4zz18-verifverifverif", ManifestText: initTxt}).FileSystem(c.api, kc)
	if err != nil {
		t.Fatalf("load %q: %v", initTxt, err)
	}
	// The write throttle (4 slots) is real.  It is not part of the model: when an operation is blocked
	// waiting for a slot the controller lets the oldest parked Keep write return (see runOp).
	kc.gated = gated
	c.se = &cfsSess{t: t, fs: fs, mb: mb, tagset: map[string]bool{}}
	runtime.Gosched()
	c.base = runtime.NumGoroutine()
	return c
}

// settle waits until every goroutine started by the filesystem is parked in the fake Keep (or gone).
func (c *cfsCtl) settle() {
	deadline := time.Now().Add(10 * time.Second)
	for {
		n := runtime.NumGoroutine() - c.base
		w := c.kc.nwaiting()
		if n == w {
			return
		}
		if time.Now().After(deadline) {
			// goroutines that neither finish nor reach the fake Keep: recorded as an observation no model explains
			c.events = append(c.events, `EOp (OStat "STUCK: background goroutines neither finish nor reach Keep") (VUnit)`)
			c.desc = append(c.desc, fmt.Sprintf("STUCK: %d extra goroutines, %d waiting in PutB after 10 s", n, w))
			c.se.tag("stuck")
			c.dead = true
			return
		}
		runtime.Gosched()
		time.Sleep(20 * time.Microsecond)
	}
}

// runOp runs one foreground call.  While it has not returned: if every throttle slot is held by a
// write parked in the fake Keep and nothing moves, the call (or a goroutine it waits for) is waiting for
// a slot, and the oldest parked write is released.  Its result can only be installed after the call
// returns (the call holds the node lock) or concerns another file (commutes), so the completion is
// logged after the call's own event; releasing early on a wrong guess is harmless for the same reason.
// A call that does not return within the deadline is a deadlock.
func (c *cfsCtl) runOp(f func()) {
	done := make(chan struct{})
	go func() {
		defer close(done)
		defer func() {
			if p := recover(); p != nil {
				// a panic inside the filesystem: an observation no model explains; the history ends
				c.events = append(c.events, `EOp (OStat "PANIC in the call") (VUnit)`)
				c.desc = append(c.desc, fmt.Sprintf("PANIC: %v", p))
				c.se.tag("panic")
				c.dead = true
			}
		}()
		f()
	}()
	var deferred [][]byte
	deadline := time.Now().Add(10 * time.Second)
	stable, lastN, lastW := 0, -1, -1
	for {
		select {
		case <-done:
			if c.dead {
				return
			}
			c.settle()
			for _, d := range deferred {
				c.events = append(c.events, "ECompleteData "+cfsBytes(d))
				c.desc = append(c.desc, fmt.Sprintf("complete write(s) of %d bytes (released while the call was parked waiting for a throttle slot / for writes in flight)", len(d)))
				c.se.tag("complete-throttle")
			}
			return
		case <-time.After(200 * time.Microsecond):
		}
		n := runtime.NumGoroutine() - c.base - 1
		w := c.kc.nwaiting()
		need := concurrentWriters
		if c.releaseBlocked {
			need = 1 // a save waits for every write in flight: let them return one by one while it is parked
		}
		if w >= need && n == lastN && w == lastW {
			stable++
			if stable >= 10 {
				c.kc.mtx.Lock()
				d := c.kc.waiting[0].data
				c.kc.mtx.Unlock()
				c.kc.releaseData(d)
				deferred = append(deferred, d)
				stable = 0
			}
		} else {
			stable = 0
		}
		lastN, lastW = n, w
		if time.Now().After(deadline) {
			c.events = append(c.events, `EOp (OStat "DEADLOCK: the previous call did not return") (VUnit)`)
			c.desc = append(c.desc, fmt.Sprintf("DEADLOCK: call did not return within 10 s (%d goroutines, %d parked in PutB)", n+1, w))
			c.se.tag("deadlock")
			if os.Getenv("VERIF_DEBUG") != "" {
				buf := make([]byte, 1<<20)
				buf = buf[:runtime.Stack(buf, true)]
				fmt.Fprintf(os.Stderr, "=== DEADLOCK goroutines ===\n%s\n", buf)
			}
			c.dead = true
			return
		}
	}
}

func (c *cfsCtl) addOp(op, ob, d string) {
	c.events = append(c.events, "EOp ("+op+") ("+ob+")")
	c.desc = append(c.desc, d+" => "+ob)
}

func (c *cfsCtl) foreground(focus bool, i int) {
	if c.dead {
		return
	}
	c.runOp(func() { c.se.randomOp(c.r, focus, i, c.dirty, c.addOp) })
}

func (c *cfsCtl) completeOne() {
	if c.dead {
		return
	}
	c.kc.mtx.Lock()
	if len(c.kc.waiting) == 0 {
		c.kc.mtx.Unlock()
		return
	}
	d := c.kc.waiting[c.r.Intn(len(c.kc.waiting))].data
	c.kc.mtx.Unlock()
	c.completeData(d)
}

func (c *cfsCtl) completeData(d []byte) {
	if c.dead {
		return
	}
	n := c.kc.releaseData(d)
	c.settle()
	c.events = append(c.events, "ECompleteData "+cfsBytes(d))
	c.desc = append(c.desc, fmt.Sprintf("complete %d write(s) of %d bytes", n, len(d)))
	c.se.tag("complete")
}

func (c *cfsCtl) completeAll() {
	for !c.dead && c.kc.nwaiting() > 0 {
		c.kc.mtx.Lock()
		d := c.kc.waiting[0].data
		c.kc.mtx.Unlock()
		c.completeData(d)
	}
}

func (c *cfsCtl) setMode(m int) {
	if c.dead {
		return
	}
	c.kc.mtx.Lock()
	c.kc.mode = m
	c.kc.mtx.Unlock()
	c.events = append(c.events, fmt.Sprintf("EMode %d", m))
	c.desc = append(c.desc, fmt.Sprintf("keep failure mode %d", m))
	c.se.tag(fmt.Sprintf("mode=%d", m))
}

func (c *cfsCtl) flush(path string, short bool) {
	if c.dead {
		return
	}
	c.runOp(func() {
		err := c.se.fs.Flush(path, short)
		ob := "VUnit"
		if err != nil {
			ob = c08ErrObs(err)
		}
		c.events = append(c.events, fmt.Sprintf("EFlush %s %s (%s)", gStr(path), gBool(short), ob))
		c.desc = append(c.desc, fmt.Sprintf("flush %q short=%v => %s", path, short, ob))
		c.se.tag("flush")
	})
}

// marshal saves synchronously.  Writes still in flight are completed first (the save would wait
// for them); a save is only attempted in failure modes 0 and 1 (with per-block outcomes the set of
// blocks written by a failing save depends on goroutine timing).
func (c *cfsCtl) marshal() (string, bool) {
	if c.dead {
		return "", false
	}
	// Saves that START while background writes are still in flight are not generated: the Go code then
	// re-commits the segments being flushed in a new synchronous block, so the text of the manifest
	// depends on where inside the call each completion lands, which the event vocabulary (completion
	// before or after the save) cannot express; such cases made the model comparison fail on the
	// unchanged tree (thorough tier, 30 of 4000 histories).  The machinery is kept for a model with
	// completions inside a save.
	const cfsInflightSaves = false
	inflight := cfsInflightSaves && c.kc.nwaiting() > 0 && (c.forceInflight || c.r.Chance(1, 2))
	if inflight {
		// the save starts while background writes are still parked in Keep; they are released one by
		// one once the call is seen waiting (events: the completions, then the save)
		c.releaseBlocked = true
		defer func() { c.releaseBlocked = false }()
		c.se.tag("save-with-writes-in-flight")
	} else {
		c.completeAll()
	}
	if c.kc.mode > 1 {
		c.setMode(c.r.Intn(2))
	}
	c.kc.mtx.Lock()
	c.kc.syncNow = true
	c.kc.mtx.Unlock()
	var txt string
	var err error
	if c.r.Chance(1, 3) {
		// save through Sync(): the manifest is whatever the collection record receives; a Sync that
		// reports success without updating the record has saved nothing
		c.se.tag("save-via-sync")
		before := c.api.count()
		c.runOp(func() { err = c.se.fs.Sync() })
		if puts := c.api.since(before); len(puts) == 1 {
			txt = puts[0]
		} else if err == nil {
			txt = fmt.Sprintf("NOT-SAVED: Sync returned nil after %d collection updates", len(puts))
		}
	} else {
		c.runOp(func() { txt, err = c.se.fs.MarshalManifest(".") })
	}
	c.kc.mtx.Lock()
	c.kc.syncNow = false
	c.kc.mtx.Unlock()
	if c.dead {
		return "", false
	}
	if err != nil {
		c.events = append(c.events, "EMarshal MErr")
		c.desc = append(c.desc, "save => error "+err.Error())
		c.se.tag("save-failed")
		c.dirty = true
		return "", false
	}
	c.events = append(c.events, "EMarshal (MText "+gStr(txt)+")")
	c.desc = append(c.desc, "save => "+txt)
	c.se.tag("save-ok")
	c.dirty = false
	return txt, true
}

// finish completes everything, saves without failures and reads every file back.
func (c *cfsCtl) finish() string {
	if c.dead {
		return ""
	}
	c.completeAll()
	if c.kc.mode != 0 {
		c.setMode(0)
	}
	txt, ok := c.marshal()
	if c.dead {
		return ""
	}
	if !ok {
		c.t.Fatalf("final save failed")
	}
	seen := map[string]bool{}
	for _, name := range c.se.known {
		if !seen[name] {
			seen[name] = true
			c.se.readAll(name, c.addOp)
		}
	}
	return txt
}

// term renders the case for coq/model/CFS_run.v.
func (c *cfsCtl) term() string {
	var tab []string
	seen := map[string]bool{}
	for _, e := range c.initTab {
		if !seen[e[0]] {
			seen[e[0]] = true
			tab = append(tab, fmt.Sprintf(`(B "%s", %s)`, e[0], gStr(e[1])))
		}
	}
	c.kc.mtx.Lock()
	for _, p := range c.kc.log {
		h := hex.EncodeToString(p.data)
		if p.ok && !seen[h] {
			seen[h] = true
			tab = append(tab, fmt.Sprintf(`(B "%s", %s)`, h, gStr(p.locator)))
		}
	}
	c.kc.mtx.Unlock()
	return fmt.Sprintf("{| c_mb := %d; c_init := %s;\n  c_tab := %s;\n  c_events := [\n  %s] |}",
		c.se.mb, gStr(c.initTxt), gList(tab), strings.Join(c.events, ";\n  "))
}

func (c *cfsCtl) tags() []string {
	t := c.se.tags()
	sort.Strings(t)
	return t
}
