//go:build verif

package arvados

// C07 harness, SDK side: drives the real SignLocator / VerifySignature / SignManifest /
// SignedLocatorRe and prints one Gallina `case` (coq/model/C07_run.v) per case.

import (
	"crypto/md5"
	"fmt"
	"os"
	"regexp"
	"strconv"
	"strings"
	"testing"
	"time"
)

const c07Hour = int64(3600)

func c07Hash(r *vRand, seed uint64, i, k int) string {
	h := fmt.Sprintf("%x", md5.Sum([]byte(fmt.Sprintf("c07-%d-%d-%d", seed, i, k))))
	switch r.Intn(12) {
	case 0:
		return strings.ToUpper(h)
	case 1:
		b := []byte(h)
		for j := range b {
			if r.Bool() {
				b[j] = strings.ToUpper(string(b[j]))[0]
			}
		}
		return string(b)
	}
	return h
}

func c07HintChars(r *vRand, n int) string {
	const al = "abcxyzABCXYZ0189@_-"
	b := make([]byte, n)
	for i := range b {
		b[i] = al[r.Intn(len(al))]
	}
	return string(b)
}

// hints that SignedLocatorRe accepts around the signature
func c07GoodHints(r *vRand) string {
	s := ""
	if r.Chance(2, 3) {
		s += "+" + strconv.Itoa(r.Intn(70000000))
	}
	for k := r.Intn(3); k > 0; k-- {
		s += "+" + string(rune('B'+r.Intn(25))) + c07HintChars(r, r.Intn(8))
	}
	return s
}

func c07Token(r *vRand) string {
	switch r.Intn(10) {
	case 0:
		return "tok"
	case 1:
		return "v2/zzzzz-gj3su-" + c07HintChars(r, 15) + "/" + c07HintChars(r, 40+r.Intn(12))
	case 2:
		return "a@b+c"
	case 3:
		return "x@" + c07HintChars(r, 3) + "@" + c07HintChars(r, 3) + "@1f"
	case 4:
		return "@"
	case 5:
		b := make([]byte, 1+r.Intn(20))
		for i := range b {
			b[i] = byte(r.Intn(256))
		}
		return string(b)
	case 6:
		return c07HintChars(r, 50+r.Intn(30))
	case 7:
		return "t+Adeadbeef@" + c07HintChars(r, 4)
	}
	return c07HintChars(r, 1+r.Intn(45))
}

func c07Key(r *vRand) string {
	n := []int{1, 5, 20, 40, 63, 64, 65, 100, 128, 200}[r.Intn(10)]
	b := make([]byte, n)
	printable := r.Chance(3, 4)
	for i := range b {
		if printable {
			b[i] = byte(33 + r.Intn(94))
		} else {
			b[i] = byte(r.Intn(256))
		}
	}
	return string(b)
}

func c07TTL(r *vRand) time.Duration {
	var s int64
	switch r.Intn(8) {
	case 0:
		s = 0
	case 1:
		s = 1
	case 2:
		s = 1209600
	case 3:
		s = int64(r.Intn(1 << 31))
	case 4:
		s = 15 + int64(r.Intn(3))
	default:
		s = int64(r.Intn(4000000))
	}
	d := time.Duration(s) * time.Second
	if r.Chance(1, 6) {
		d += time.Duration(r.Intn(1000)) * time.Millisecond
	}
	return d
}

// offsets from now, always at least an hour away
func c07Offset(r *vRand, future bool) int64 {
	// up to ~2090: expiry values on both sides of 0x80000000 (2038) while staying below 2^32 (2106)
	mags := []int64{c07Hour, 2 * c07Hour, 86400, 14 * 86400, 365 * 86400, 10 * 365 * 86400, 13 * 365 * 86400, 40 * 365 * 86400, 64 * 365 * 86400}
	k := r.Intn(len(mags))
	if !future && k > 5 {
		k -= 3 // the past stays within ten years (expiry values are non-negative)
	}
	d := mags[k] + int64(r.Intn(3600))
	if future {
		return d
	}
	return -d
}

func c07VName(err error) string {
	switch err {
	case nil:
		return "VOk"
	case ErrSignatureExpired:
		return "VExpired"
	case ErrSignatureInvalid:
		return "VInvalid"
	case ErrSignatureMissing:
		return "VMissing"
	}
	panic("unexpected error from VerifySignature: " + err.Error())
}

var c07ExpRe = regexp.MustCompile(`@([0-9a-fA-F]{8})`)

// c07NearNow reports whether some 8-hex-digit field after an '@' in loc denotes a time within two
// seconds of [t0,t1]: such a presentation is skipped, because the verdict would depend on the exact
// instant at which VerifySignature read the clock.
func c07NearNow(loc string, t0, t1 time.Time) bool {
	for _, m := range c07ExpRe.FindAllStringSubmatch(loc, -1) {
		v, err := strconv.ParseInt(m[1], 16, 64)
		if err == nil && v >= t0.Unix()-2 && v <= t1.Unix()+2 {
			return true
		}
	}
	return false
}

type c07Pres struct {
	Loc, Tok string
	TTL      time.Duration
	Key      string
	Obs      string
	What     string
}

func c07Present(now time.Time, loc, tok string, ttl time.Duration, key, what string) (c07Pres, bool) {
	err := VerifySignature(loc, tok, ttl, []byte(key))
	t1 := time.Now()
	if c07NearNow(loc, now, t1) || t1.Sub(now) > 30*time.Minute {
		return c07Pres{}, false
	}
	return c07Pres{loc, tok, ttl, key, c07VName(err), what}, true
}

// a perturbation: the locator as an edit of the base string (Gallina term of type edit), token / ttl
// delta / key with "same" flags
type c07Pert struct {
	What, Edit, Loc, Tok string
	DTTL               time.Duration
	Key                string
}

func c07Opt(same bool, v string) string {
	if same {
		return "None"
	}
	return "(Some " + v + ")"
}

const c07Repl = "0aAfF+@gBz -_9\n"

func c07Perturbations(r *vRand, all bool, signed, loc, tok string, ttl time.Duration, key string, exp int64, otherHash string) (out []c07Pert) {
	add := func(what, l, t string, dttl time.Duration, k string) {
		e := "EId"
		if l != signed {
			e = "(ELoc " + gStr(l) + ")"
		}
		out = append(out, c07Pert{what, e, l, t, dttl, k})
	}
	add("identity", signed, tok, 0, key)
	set := func(i int, c byte) {
		if signed[i] != c {
			out = append(out, c07Pert{"char", fmt.Sprintf("(ESet %d %d)", i, c), signed[:i] + string(c) + signed[i+1:], tok, 0, key})
		}
	}
	for i := 0; i < len(signed); i++ {
		if all {
			for _, c := range []byte(c07Repl) {
				set(i, c)
			}
		} else {
			c := c07Repl[r.Intn(len(c07Repl))]
			if i >= 32 && r.Chance(1, 2) {
				// stay inside the hex alphabet half of the time: these are the interesting ones
				c = "0123456789abcdef"[r.Intn(16)]
			}
			set(i, c)
		}
	}
	for k := 0; k < 6; k++ {
		i := r.Intn(len(signed))
		out = append(out, c07Pert{"delete-char", fmt.Sprintf("(EDel %d)", i), signed[:i] + signed[i+1:], tok, 0, key})
		c := c07Repl[r.Intn(len(c07Repl))]
		out = append(out, c07Pert{"insert-char", fmt.Sprintf("(EIns %d %d)", i, c), signed[:i] + string(c) + signed[i:], tok, 0, key})
	}
	ai := strings.Index(signed, "+A")
	rest := signed[ai+2:]
	after := ""
	if j := strings.Index(rest, "+"); j >= 0 {
		after = rest[j:]
		rest = rest[:j]
	}
	sig, exphex := rest[:40], rest[41:]
	pre := signed[:ai]
	add("no-signature", pre+after, tok, 0, key)
	add("no-signature-A", pre+"+A"+after, tok, 0, key)
	add("short-signature", pre+"+A"+sig[:39]+"@"+exphex+after, tok, 0, key)
	add("long-signature", pre+"+A"+sig+"0@"+exphex+after, tok, 0, key)
	add("upper-signature", pre+"+A"+strings.ToUpper(sig)+"@"+exphex+after, tok, 0, key)
	add("upper-expiry", pre+"+A"+sig+"@"+strings.ToUpper(exphex)+after, tok, 0, key)
	add("upper-hash", strings.ToUpper(signed[:32])+signed[32:], tok, 0, key)
	add("lower-hash", strings.ToLower(signed[:32])+signed[32:], tok, 0, key)
	add("other-hash", otherHash+signed[32:], tok, 0, key)
	add("twice-signed", signed+"+A"+sig+"@"+exphex, tok, 0, key)
	add("signature-moved-front", signed[:32]+"+A"+sig+"@"+exphex+pre[32:]+after, tok, 0, key)
	add("extra-hint-after", signed+"+Zextra", tok, 0, key)
	add("extra-hint-before", pre+"+Kzzzzz+A"+sig+"@"+exphex+after, tok, 0, key)
	for _, d := range []int64{1, -1, 16, 3600, 86400 * 365, -86400 * 365} {
		if exp+d >= 0 && exp+d < 1<<32 {
			add("other-expiry", pre+"+A"+sig+"@"+fmt.Sprintf("%08x", exp+d)+after, tok, 0, key)
		}
	}
	add("token+x", signed, tok+"x", 0, key)
	add("token-empty", signed, "", 0, key)
	if len(tok) > 1 {
		add("token-truncated", signed, tok[:len(tok)-1], 0, key)
		add("token-case", signed, strings.ToUpper(tok[:1])+tok[1:], 0, key)
	}
	add("token@", signed, tok+"@", 0, key)
	add("ttl+1s", signed, tok, time.Second, key)
	if ttl >= time.Second {
		add("ttl-1s", signed, tok, -time.Second, key)
	}
	add("ttl+1ms", signed, tok, time.Millisecond, key) // crosses a second only if the fraction was .999
	add("ttl+999ms", signed, tok, 999*time.Millisecond, key)
	if ttl < (1<<26)*time.Second {
		add("ttl*16", signed, tok, ttl*15, key)
	}
	add("key+x", signed, tok, 0, key+"x")
	add("key-truncated", signed, tok, 0, key[:len(key)-1])
	add("key-empty", signed, tok, 0, "")
	kb := []byte(key)
	kb[r.Intn(len(kb))] ^= byte(1 << uint(r.Intn(8)))
	add("key-bitflip", signed, tok, 0, string(kb))
	// move the '@' between token and expiry: hash@tok@exp must not be confusable
	add("token-swallows-expiry", signed, tok+"@"+exphex, 0, key)
	return out
}

func c07Manifest(r *vRand, seed uint64, i int, now time.Time) string {
	ws := []string{" ", " ", " ", "\n", "\t", "  ", " \n", "\r\n", "\f", "\n\n"}
	nonws := []string{"\v", " ", " ", "\x85", "\xff", "\xc3"}
	var b strings.Builder
	if r.Chance(1, 6) {
		b.WriteString(ws[r.Intn(len(ws))])
	}
	nstreams := 1 + r.Intn(3)
	blk := 0
	for s := 0; s < nstreams; s++ {
		b.WriteString([]string{".", "./dir", "./a\\040b", "./" + c07HintChars(r, 5)}[r.Intn(4)])
		for k := 1 + r.Intn(4); k > 0; k-- {
			b.WriteString(ws[r.Intn(3)])
			if r.Chance(1, 12) {
				b.WriteString(ws[r.Intn(len(ws))])
			}
			hb := blk
			if blk > 0 && r.Chance(1, 4) {
				hb = r.Intn(blk) // the same block again, usually written with other hints
			} else {
				blk++
			}
			h := fmt.Sprintf("%x", md5.Sum([]byte(fmt.Sprintf("c07m-%d-%d-%d", seed, i, hb))))
			switch r.Intn(14) {
			case 0:
				h = strings.ToUpper(h) // not a block token for SignManifest
			case 1:
				h = h[:31] // too short
			case 2:
				h = h + "0" // 33 hex digits: still starts with 32
			case 3:
				h = h + nonws[r.Intn(len(nonws))]
			}
			tok := h
			for q := r.Intn(5); q > 0; q-- {
				switch r.Intn(9) {
				case 0, 1:
					tok += "+" + strconv.Itoa(r.Intn(100000))
				case 2:
					tok += "+" + string(rune('B'+r.Intn(25))) + c07HintChars(r, r.Intn(6))
				case 3:
					tok += SignLocator("", "othertoken", now.Add(time.Hour*time.Duration(2+r.Intn(100))), time.Hour, []byte("otherkey"))
				case 4:
					tok += "+A" + c07HintChars(r, r.Intn(10))
				case 5:
					tok += "+A"
				case 6:
					tok += "+"
				case 7:
					tok += "+a" + c07HintChars(r, 3)
				case 8:
					tok += "+R" + c07HintChars(r, 5) + "-" + c07HintChars(r, 40) + "@" + fmt.Sprintf("%08x", now.Unix()+7200)
				}
			}
			b.WriteString(tok)
		}
		for k := r.Intn(3); k > 0; k-- {
			b.WriteString(ws[r.Intn(3)])
			b.WriteString(fmt.Sprintf("%d:%d:%s", r.Intn(100), r.Intn(100), []string{"foo", "a\\040b", "dir/f+A1", "x+y", "0123456789abcdef0123456789abcdef", "f" + nonws[r.Intn(len(nonws))]}[r.Intn(6)]))
		}
		if s < nstreams-1 || r.Chance(5, 6) {
			b.WriteString("\n")
		}
	}
	if r.Chance(1, 8) {
		b.WriteString(ws[r.Intn(len(ws))])
	}
	return b.String()
}

// boundary strings for SignedLocatorRe
func c07ReString(r *vRand) string {
	hx := func(n int) string {
		const al = "0123456789abcdefABCDEF"
		b := make([]byte, n)
		for i := range b {
			b[i] = al[r.Intn(len(al))]
		}
		return string(b)
	}
	odd := func() string { return []string{"g", "G", " ", "\n", ".", "/", "@", "+", "-", "_", "\xc3\xa9", "", "A", "B"}[r.Intn(14)] }
	var b strings.Builder
	clean := r.Chance(1, 3) // no deliberate defect except at most one below
	switch r.Intn(20) {
	case 0:
		b.WriteString(hx(31))
	case 1:
		b.WriteString(hx(33))
	case 2:
		h := []byte(hx(32))
		h[r.Intn(32)] = "gG .@+-_zZ\n"[r.Intn(11)]
		b.Write(h)
	default:
		b.WriteString(hx(32))
	}
	hint := func() {
		q := r.Intn(24)
		if clean {
			q = 23
		}
		switch q {
		case 0:
			b.WriteString("+" + odd() + c07HintChars(r, r.Intn(4)))
		case 1:
			b.WriteString("+" + string(rune('B'+r.Intn(25))) + c07HintChars(r, r.Intn(3)) + odd() + c07HintChars(r, r.Intn(3)))
		case 2:
			b.WriteString("+")
		case 3:
			b.WriteString("+" + strconv.Itoa(r.Intn(1000)))
		case 4:
			b.WriteString("+a" + c07HintChars(r, 2))
		case 5:
			b.WriteString("+Z")
		default:
			b.WriteString("+" + string(rune('B'+r.Intn(25))) + c07HintChars(r, r.Intn(8)))
		}
	}
	if r.Chance(3, 4) {
		q := r.Intn(16)
		if clean {
			q = 15
		}
		switch q {
		case 0:
			b.WriteString("+")
		case 1:
			b.WriteString("+12a")
		case 2:
			b.WriteString("+-1")
		default:
			b.WriteString("+" + strconv.Itoa(r.Intn(100000000)))
		}
	}
	for k := r.Intn(3); k > 0; k-- {
		hint()
	}
	nsig := 1
	switch r.Intn(24) {
	case 0:
		nsig = 0
	case 1:
		nsig = 2
	}
	for ; nsig > 0; nsig-- {
		sl, el := 40, 8
		q := r.Intn(28)
		if clean {
			q = 27
		}
		switch q {
		case 0:
			sl = 39
		case 1:
			sl = 41
		case 2:
			el = 7
		case 3:
			el = 9
		case 4:
			el = 0
		}
		sep := "@"
		q = r.Intn(40)
		if clean {
			q = 39
		}
		switch q {
		case 0:
			sep = ""
		case 1:
			sep = "@@"
		case 2:
			sep = "_"
		}
		s, e := hx(sl), hx(el)
		if !clean && r.Chance(1, 16) && sl > 0 {
			i := r.Intn(sl)
			s = s[:i] + odd() + s[i+1:]
		}
		if !clean && r.Chance(1, 16) && el > 0 {
			i := r.Intn(el)
			e = e[:i] + odd() + e[i+1:]
		}
		a := "+A"
		if !clean && r.Chance(1, 24) {
			a = []string{"+a", "A", "+", "+AA", " +A"}[r.Intn(5)]
		}
		b.WriteString(a + s + sep + e)
		for k := r.Intn(3); k > 0; k-- {
			hint()
		}
	}
	if r.Chance(1, 20) {
		b.WriteString(odd())
	}
	s := b.String()
	if r.Chance(1, 40) {
		s = odd() + s
	}
	return s
}

func TestVerifC07(t *testing.T) {
	seed := vSeed()
	n := vEnvInt("VERIF_N", 400)
	only := vOnly()
	stage := os.Getenv("VERIF_STAGE")
	if stage == "" {
		stage = "c07sdk"
	}
	thorough := os.Getenv("VERIF_TIER") == "thorough"
	cs := vNewCases(stage)
	for i := 0; i < n; i++ {
		if only >= 0 && i != only {
			continue
		}
		r := vCaseRand(seed, i)
		now := time.Now()
		kind := r.Intn(100)
		if kind >= 45 && kind < 51 {
			kind = 51 + r.Intn(49)
		}
		if i%25 == 7 {
			kind = 45 // one perturbation case per 25 cases: they are the expensive ones, spread evenly over the shards
		}
		switch {
		case kind < 22: // SignLocator
			hash := c07Hash(r, seed, i, 0)
			loc := hash + c07GoodHints(r)
			switch r.Intn(12) {
			case 0:
				loc = ""
			case 1:
				loc = "+" + loc
			case 2:
				loc = loc + "+Aalready@signed"
			case 3:
				loc = hash[:r.Intn(32)]
			case 4:
				loc = c07HintChars(r, 5) + "+" + loc
			}
			tok, key, ttl := c07Token(r), c07Key(r), c07TTL(r)
			switch r.Intn(12) {
			case 0:
				tok = ""
			case 1:
				key = ""
			}
			var exp int64
			switch r.Intn(10) {
			case 0:
				exp = int64(r.Intn(1 << 28)) // needs zero padding
			case 1:
				exp = int64(r.Intn(1 << 16))
			case 2:
				exp = (1 << 32) + int64(r.Intn(1<<30)) // nine hex digits
			case 3:
				exp = 0
			case 4:
				exp = (1 << 28) - 1 + int64(r.Intn(3))
			case 5:
				exp = (1 << 32) - 2 + int64(r.Intn(4))
			default:
				exp = now.Unix() + c07Offset(r, r.Bool())
			}
			o := SignLocator(loc, tok, time.Unix(exp, int64(r.Intn(1000000000))), ttl, []byte(key))
			term := fmt.Sprintf("CSign %s %s %s %s %s %s", gStr(loc), gStr(tok), gN(exp), gN(int64(ttl)), gStr(key), gStr(o))
			desc := map[string]interface{}{"index": i, "kind": "sign", "locator": loc, "token": tok, "expiry": exp, "ttl_ns": int64(ttl), "key": key, "signed": o}
			cs.Add(i, term, desc, tok != "" && key != "", "kind=sign", fmt.Sprintf("keylen>64=%v", len(key) > 64))
		case kind < 45: // VerifySignature on (mostly) well-formed presentations
			hash := c07Hash(r, seed, i, 0)
			pre, post := c07GoodHints(r), ""
			if r.Chance(1, 3) {
				post = "+" + string(rune('B'+r.Intn(25))) + c07HintChars(r, r.Intn(6))
			}
			tok, key, ttl := c07Token(r), c07Key(r), c07TTL(r)
			future := r.Chance(2, 3)
			exp := now.Unix() + c07Offset(r, future)
			if exp >= 1<<32 {
				exp = now.Unix() + 2*c07Hour
			}
			signed := SignLocator(hash+pre, tok, time.Unix(exp, 0), ttl, []byte(key)) + post
			what := "valid"
			ptok, pkey, pttl := tok, key, ttl
			switch r.Intn(14) {
			case 0:
				ptok, what = c07Token(r), "other-token"
			case 1:
				pkey, what = c07Key(r), "other-key"
			case 2:
				pttl, what = c07TTL(r), "other-ttl"
			case 3:
				signed, what = strings.Replace(signed, "+A", "+B", 1), "A->B"
			case 4:
				j := strings.Index(signed, "+A") + 2 + r.Intn(40)
				signed, what = signed[:j]+string("0123456789abcdef"[r.Intn(16)])+signed[j+1:], "sig-digit"
			case 5:
				j := strings.Index(signed, "+A") + 43 + r.Intn(8)
				signed, what = signed[:j]+string("0123456789abcdefABCDEF"[r.Intn(22)])+signed[j+1:], "expiry-digit"
			case 6:
				j := r.Intn(32)
				signed, what = signed[:j]+string("0123456789abcdefABCDEF"[r.Intn(22)])+signed[j+1:], "hash-digit"
			}
			p, ok := c07Present(now, signed, ptok, pttl, pkey, what)
			if !ok {
				cs.Tag("skipped-near-now")
				continue
			}
			term := fmt.Sprintf("CVerify %s %s %s %s %s %s", gStr(p.Loc), gStr(p.Tok), gN(int64(p.TTL)), gStr(p.Key), gN(now.UnixNano()), p.Obs)
			desc := map[string]interface{}{"index": i, "kind": "verify", "what": what, "locator": p.Loc, "token": p.Tok, "ttl_ns": int64(p.TTL), "key": p.Key, "result": p.Obs, "expiry": exp}
			cs.Add(i, term, desc, true, "kind=verify", "verify="+p.Obs, "verify-what="+what)
		case kind < 51: // perturbations of one valid signed locator
			hash := c07Hash(r, seed, i, 0)
			loc := hash + c07GoodHints(r)
			tok, key, ttl := c07Token(r), c07Key(r), c07TTL(r)
			if tok == "" {
				tok = "t"
			}
			exp := now.Unix() + c07Offset(r, r.Chance(5, 6))
			if exp >= 1<<32 {
				exp = now.Unix() + 2*c07Hour
			}
			signed := SignLocator(loc, tok, time.Unix(exp, 0), ttl, []byte(key))
			post := ""
			if r.Chance(1, 3) {
				post = "+" + string(rune('B'+r.Intn(25))) + c07HintChars(r, r.Intn(6))
			}
			var ps []string
			var pdesc []interface{}
			accepted := 0
			for _, q := range c07Perturbations(r, thorough, signed+post, loc, tok, ttl, key, exp, c07Hash(r, seed, i, 1)) {
				p, ok := c07Present(now, q.Loc, q.Tok, ttl+q.DTTL, q.Key, q.What)
				if !ok {
					cs.Tag("skipped-near-now")
					continue
				}
				if p.Obs == "VOk" {
					accepted++
				}
				ps = append(ps, fmt.Sprintf("D %s %s %s %s %s", q.Edit, c07Opt(q.Tok == tok, gStr(q.Tok)), c07Opt(q.DTTL == 0, gN(int64(ttl+q.DTTL))),
					c07Opt(q.Key == key, gStr(q.Key)), p.Obs))
				cs.Tag("perturbation=" + q.What)
				cs.Tag("perturbed-verify=" + p.Obs)
				if len(pdesc) < 400 {
					pdesc = append(pdesc, map[string]interface{}{"what": q.What, "locator": p.Loc, "token": p.Tok, "ttl_ns": int64(p.TTL), "key": p.Key, "result": p.Obs})
				}
			}
			term := fmt.Sprintf("CPerturb %s %s %s %s %s %s %s %s\n  %s", gStr(loc), gStr(tok), gN(exp), gN(int64(ttl)), gStr(key), gN(now.UnixNano()), gStr(signed), gStr(post), gList(ps))
			desc := map[string]interface{}{"index": i, "kind": "perturb", "locator": loc, "token": tok, "expiry": exp, "ttl_ns": int64(ttl), "key": key, "signed": signed, "post": post,
				"presentations": len(ps), "accepted": accepted, "perturbations": pdesc}
			cs.Add(i, term, desc, true, "kind=perturb")
		case kind < 66: // SignManifest
			m := c07Manifest(r, seed, i, now)
			tok, key, ttl := c07Token(r), c07Key(r), c07TTL(r)
			switch r.Intn(16) {
			case 0:
				tok = ""
			case 1:
				key = ""
			}
			exp := now.Unix() + c07Offset(r, true)
			o := SignManifest(m, tok, time.Unix(exp, 0), ttl, []byte(key))
			term := fmt.Sprintf("CManifest %s %s %s %s %s %s", gStr(m), gStr(tok), gN(exp), gN(int64(ttl)), gStr(key), gStr(o))
			desc := map[string]interface{}{"index": i, "kind": "manifest", "manifest": m, "token": tok, "expiry": exp, "ttl_ns": int64(ttl), "key": key, "signed": o}
			cs.Add(i, term, desc, strings.Contains(o, "+A"), "kind=manifest")
		default: // SignedLocatorRe boundary strings
			s := c07ReString(r)
			m := SignedLocatorRe.FindStringSubmatch(s)
			g := "None"
			if m != nil {
				g = fmt.Sprintf("(Some (%s, %s, %s))", gStr(m[1]), gStr(m[6]), gStr(m[7]))
			}
			term := fmt.Sprintf("CRe %s %s", gStr(s), g)
			desc := map[string]interface{}{"index": i, "kind": "regexp", "string": s, "match": m != nil}
			cs.Add(i, term, desc, true, "kind=regexp", fmt.Sprintf("regexp-match=%v", m != nil))
		}
	}
	cs.Write()
}
