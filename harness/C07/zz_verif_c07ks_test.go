//go:build verif

package main

// C07 harness, keepstore side: GET through the real router (handler.ServeHTTP) with blob signing on
// and off, for valid, expired, perturbed and unsigned locators. Prints Gallina `CGet` cases.

import (
	"bytes"
	"context"
	"crypto/md5"
	"encoding/json"
	"fmt"
	"io/ioutil"
	"net/http/httptest"
	"os"
	"strings"
	"testing"
	"time"

	"git.arvados.org/arvados.git/lib/config"
	"git.arvados.org/arvados.git/sdk/go/arvados"
	"git.arvados.org/arvados.git/sdk/go/ctxlog"
	"github.com/prometheus/client_golang/prometheus"
	"github.com/sirupsen/logrus"
)

type c07Store struct {
	h       *handler
	cluster *arvados.Cluster
	dir     string
	blocks  map[string][]byte // hash -> data, PUT before the cases run
	putResp []string          // locators returned by the PUTs
	putAt   time.Time
}

func c07NewStore(t *testing.T, signing bool, key string, ttl time.Duration, nblocks int, tag string) *c07Store {
	quiet := logrus.New()
	quiet.SetOutput(ioutil.Discard)
	ldr := config.NewLoader(bytes.NewBufferString("Clusters: {zzzzz: {}}"), quiet)
	ldr.Path = "-"
	cfg, err := ldr.Load()
	if err != nil {
		t.Fatal(err)
	}
	cluster, err := cfg.GetCluster("")
	if err != nil {
		t.Fatal(err)
	}
	cluster.SystemRootToken = "systemroottokensystemroottokensystemroottoken"
	cluster.Collections.BlobSigning = signing
	cluster.Collections.BlobSigningKey = key
	cluster.Collections.BlobSigningTTL = arvados.Duration(ttl)
	cluster.Services.Controller.ExternalURL = arvados.URL{Scheme: "http", Host: "localhost:1"}
	dir, err := ioutil.TempDir("", "c07ks")
	if err != nil {
		t.Fatal(err)
	}
	p, _ := json.Marshal(map[string]interface{}{"Root": dir})
	cluster.Volumes = map[string]arvados.Volume{"zzzzz-nyw5e-000000000000000": {Replication: 1, Driver: "Directory", DriverParameters: p}}
	h := &handler{}
	ctx := ctxlog.Context(context.Background(), quiet)
	if err := h.setup(ctx, cluster, "", prometheus.NewRegistry(), testServiceURL); err != nil {
		t.Fatal(err)
	}
	st := &c07Store{h: h, cluster: cluster, dir: dir, blocks: map[string][]byte{}, putAt: time.Now()}
	for k := 0; k < nblocks; k++ {
		data := []byte(fmt.Sprintf("c07 block %s %d", tag, k))
		hash := fmt.Sprintf("%x", md5.Sum(data))
		req := httptest.NewRequest("PUT", "/"+hash, bytes.NewReader(data))
		req.Header.Set("Authorization", "Bearer puttoken")
		rec := httptest.NewRecorder()
		h.ServeHTTP(rec, req)
		if rec.Code != 200 {
			t.Fatalf("PUT: %d %s", rec.Code, rec.Body.String())
		}
		st.blocks[hash] = data
		st.putResp = append(st.putResp, strings.TrimSuffix(rec.Body.String(), "\n"))
	}
	return st
}

func c07ksHintChars(r *vRand, n int) string {
	const al = "abcxyzABCXYZ0189@_-"
	b := make([]byte, n)
	for i := range b {
		b[i] = al[r.Intn(len(al))]
	}
	return string(b)
}

func TestVerifC07KS(t *testing.T) {
	seed := vSeed()
	n := vEnvInt("VERIF_N", 300)
	only := vOnly()
	stage := os.Getenv("VERIF_STAGE")
	if stage == "" {
		stage = "c07ks"
	}
	cs := vNewCases(stage)
	// fixed configurations (independent of the case index, so that a single case can be replayed)
	stores := []*c07Store{
		c07NewStore(t, true, "c07-signing-key-A-0123456789abcdefghijklmnopqrstuvwxyz", 14*24*time.Hour, 3, "a"),
		c07NewStore(t, true, "k", 3*time.Hour+500*time.Millisecond, 2, "b"),
		c07NewStore(t, false, "c07-signing-key-C", 2*time.Hour, 2, "c"),
		c07NewStore(t, false, "", 2*time.Hour, 2, "d"),
	}
	defer func() {
		for _, st := range stores {
			os.RemoveAll(st.dir)
		}
	}()
	for i := 0; i < n; i++ {
		if only >= 0 && i != only {
			continue
		}
		r := vCaseRand(seed, i)
		st := stores[[]int{0, 0, 0, 1, 1, 2, 3}[r.Intn(7)]]
		cluster := st.cluster
		signing := cluster.Collections.BlobSigning
		key := cluster.Collections.BlobSigningKey
		ttl := cluster.Collections.BlobSigningTTL.Duration()
		var hashes []string
		for h := range st.blocks {
			hashes = append(hashes, h)
		}
		// map iteration order is random: pick deterministically
		minh := hashes[0]
		for _, h := range hashes {
			if h < minh {
				minh = h
			}
		}
		hash := minh
		if k := r.Intn(len(hashes)); true {
			// k-th smallest
			sorted := append([]string(nil), hashes...)
			for a := range sorted {
				for b := a + 1; b < len(sorted); b++ {
					if sorted[b] < sorted[a] {
						sorted[a], sorted[b] = sorted[b], sorted[a]
					}
				}
			}
			hash = sorted[k]
		}
		if r.Chance(1, 5) {
			hash = fmt.Sprintf("%x", md5.Sum([]byte(fmt.Sprintf("absent-%d-%d", seed, i))))
		}
		tok := []string{"tok", "v2/zzzzz-gj3su-0123456789abcde/" + c07ksHintChars(r, 45), "a@b+c", "x y", c07ksHintChars(r, 1+r.Intn(40))}[r.Intn(5)]
		now := time.Now()
		future := r.Chance(3, 4)
		off := []int64{3600, 7200, 86400, 14 * 86400, 365 * 86400}[r.Intn(5)] + int64(r.Intn(3600))
		if !future {
			off = -off
		}
		exp := now.Unix() + off
		loc := hash
		if r.Chance(2, 3) {
			loc += fmt.Sprintf("+%d", r.Intn(100000))
		}
		for k := r.Intn(3); k > 0; k-- {
			loc += "+" + string(rune('B'+r.Intn(25))) + c07ksHintChars(r, r.Intn(6))
		}
		signed := SignLocator(cluster, loc, tok, time.Unix(exp, 0))
		if r.Chance(1, 3) {
			signed += "+" + string(rune('B'+r.Intn(25))) + c07ksHintChars(r, r.Intn(6))
		}
		what := "as-signed"
		present := signed
		ptok := tok
		scheme := []string{"Bearer ", "OAuth2 ", "Bearer   ", "OAuth2\t"}[r.Intn(4)]
		const repl = "0123456789abcdefAFgGBz@+-_.~"
		switch r.Intn(20) {
		case 0:
			present, what = loc, "unsigned"
		case 1, 2, 3, 4:
			j := r.Intn(len(present))
			c := repl[r.Intn(len(repl))]
			if j >= 32 && r.Bool() {
				c = "0123456789abcdef"[r.Intn(16)]
			}
			present, what = present[:j]+string(c)+present[j+1:], "char"
		case 5:
			ptok, what = tok+"x", "other-token"
		case 6:
			ptok, what = "", "no-token"
		case 7:
			scheme, what = []string{"Basic ", "bearer ", "Bearer", "Token "}[r.Intn(4)], "other-scheme"
		case 8:
			present, what = SignLocator(cluster, loc, tok, time.Unix(now.Unix()+7200, 0)), "re-signed"
		case 9:
			present, what = arvados.SignLocator(loc, tok, time.Unix(exp, 0), ttl, []byte(key+"x")), "other-key"
		case 10:
			present, what = arvados.SignLocator(loc, tok, time.Unix(exp, 0), ttl+time.Second, []byte(key)), "other-ttl"
		case 11:
			present, what = strings.ToUpper(present[:32])+present[32:], "upper-hash"
		case 12:
			j := r.Intn(len(present))
			present, what = present[:j]+present[j+1:], "delete-char"
		case 13:
			present, what = loc+"+Rzzzzz-"+c07ksHintChars(r, 40)+"@"+fmt.Sprintf("%08x", exp), "remote-hint"
		case 14:
			present, what = present+"+", "trailing-plus"
		case 15:
			present, what = hash, "bare-hash"
		}
		badChar := strings.ContainsAny(present, "/%?#")
		for _, c := range []byte(present) {
			if c < 0x21 || c > 0x7e {
				badChar = true // cannot be written into a request line
			}
		}
		if badChar {
			cs.Tag("skipped-url-char")
			continue
		}
		path := "/" + present
		req := httptest.NewRequest("GET", "http://keep.example"+path, nil)
		if req.URL.Path != path {
			cs.Tag("skipped-url-char")
			continue
		}
		auth := scheme + ptok
		hasAuth := !(what == "no-token" && r.Bool())
		if hasAuth {
			req.Header.Set("Authorization", auth)
		}
		rec := httptest.NewRecorder()
		st.h.ServeHTTP(rec, req)
		t1 := time.Now()
		if m := c07ksNear(present, now, t1); m {
			cs.Tag("skipped-near-now")
			continue
		}
		stored := false
		var data []byte
		if len(present) >= 32 {
			data, stored = st.blocks[present[:32]]
		}
		bodyOK := stored && bytes.Equal(rec.Body.Bytes(), data)
		if what == "remote-hint" && !strings.Contains(present, "+A") {
			// handed to the remote proxy (not C07): outcome recorded but not judged
		}
		authTerm := "None"
		if hasAuth {
			authTerm = "(Some " + gStr(auth) + ")"
		}
		term := fmt.Sprintf("CGet %s %s %s %s %s %s %s %s %s", gBool(signing), gStr(path), authTerm, gN(int64(ttl)), gStr(key), gN(now.UnixNano()),
			gBool(stored), gN(int64(rec.Code)), gBool(bodyOK))
		desc := map[string]interface{}{"index": i, "kind": "get", "what": what, "signing": signing, "path": path, "authorization": auth, "has_authorization": hasAuth,
			"stored": stored, "status": rec.Code, "body_is_block": bodyOK, "expiry": exp}
		cs.Add(i, term, desc, signing, "kind=get", fmt.Sprintf("get-status=%d", rec.Code), "get-what="+what, fmt.Sprintf("signing=%v", signing))
	}
	// the locators returned by PUT: signed for the caller's token whenever a signing key is configured
	k := 0
	for si, st := range stores {
		for _, loc := range st.putResp {
			idx := n + k
			k++
			if only >= 0 && only != idx {
				continue
			}
			key := st.cluster.Collections.BlobSigningKey
			ttl := st.cluster.Collections.BlobSigningTTL.Duration()
			err := arvados.VerifySignature(loc, "puttoken", ttl, []byte(key))
			obs := map[error]string{nil: "VOk", arvados.ErrSignatureExpired: "VExpired", arvados.ErrSignatureInvalid: "VInvalid", arvados.ErrSignatureMissing: "VMissing"}[err]
			term := fmt.Sprintf("CVerify %s %s %s %s %s %s", gStr(loc), gStr("puttoken"), gN(int64(ttl)), gStr(key), gN(st.putAt.UnixNano()), obs)
			desc := map[string]interface{}{"index": idx, "kind": "put-response", "store": si, "locator": loc, "token": "puttoken", "ttl_ns": int64(ttl), "key": key, "result": obs}
			cs.Add(idx, term, desc, key != "", "kind=put-response", "put-response-verify="+obs)
		}
	}
	cs.Write()
}

func c07ksNear(loc string, t0, t1 time.Time) bool {
	for i := 0; i+9 <= len(loc); i++ {
		if loc[i] != '@' {
			continue
		}
		var v int64
		ok := true
		for _, c := range []byte(loc[i+1 : i+9]) {
			switch {
			case c >= '0' && c <= '9':
				v = v*16 + int64(c-'0')
			case c >= 'a' && c <= 'f':
				v = v*16 + int64(c-'a'+10)
			case c >= 'A' && c <= 'F':
				v = v*16 + int64(c-'A'+10)
			default:
				ok = false
			}
		}
		if ok && v >= t0.Unix()-2 && v <= t1.Unix()+2 {
			return true
		}
	}
	return false
}
