//go:build verif

package dispatchcloud

import (
	"fmt"
	"os"
	"strings"
	"testing"

	"git.arvados.org/arvados.git/sdk/go/arvados"
)

// C16 stage "choose": drives the exported ChooseInstanceType / EstimateScratchSpace on generated
// instance-type tables and containers placed around every boundary of a target type (exact fit,
// one unit above/below) and prints one Gallina `case` per input (coq/model/C16_run.v).

type c16Type struct {
	id      int
	priceQ  int64 // price = priceQ / 4 (binary-exact)
	ram     int64
	vcpus   int
	scratch int64
	pre     bool
}

func c16NeedRAM(total int64) int64 { return total * 100 / 95 }

// largest/smallest total whose scaled value equals want (within a small window), or -1
func c16TotalFor(r *vRand, want int64) int64 {
	if want < 0 {
		return -1
	}
	x0 := want/100*95 + (want%100)*95/100
	var hits []int64
	for x := x0 - 3; x <= x0+3; x++ {
		if x >= 0 && c16NeedRAM(x) == want {
			hits = append(hits, x)
		}
	}
	if len(hits) == 0 {
		return -1
	}
	switch r.Intn(3) {
	case 0:
		return hits[0]
	case 1:
		return hits[len(hits)-1]
	}
	return hits[r.Intn(len(hits))]
}

func c16PDH(r *vRand, n int64, mode int) string {
	hexs := "0123456789abcdef"
	b := make([]byte, 32)
	for i := range b {
		b[i] = hexs[r.Intn(16)]
	}
	h := string(b)
	switch mode {
	case 0:
		return fmt.Sprintf("%s+%d", h, n)
	case 1: // upper-case hex digit
		return fmt.Sprintf("%s+%d", strings.ToUpper(h[:1])+"F"+h[2:], n)
	case 2: // 31 hex digits
		return fmt.Sprintf("%s+%d", h[:31], n)
	case 3: // trailing hint
		return fmt.Sprintf("%s+%d+A1234", h, n)
	case 4: // no size
		return h + "+"
	case 5: // non-digit in size
		return fmt.Sprintf("%s+%da", h, n)
	case 6: // trailing newline ($ is end of text)
		return fmt.Sprintf("%s+%d\n", h, n)
	case 7: // 33 hex digits
		return fmt.Sprintf("%sa+%d", h, n)
	case 8: // huge: does not fit int64
		return h + "+92233720368547758070"
	case 9: // leading zeros
		return fmt.Sprintf("%s+000%d", h, n)
	case 10: // sign
		return fmt.Sprintf("%s+-%d", h, n)
	}
	return ""
}

func TestVerifC16(t *testing.T) {
	seed := vSeed()
	n := vEnvInt("VERIF_N", 400)
	only := vOnly()
	stage := os.Getenv("VERIF_STAGE")
	if stage == "" {
		stage = "choose"
	}
	cs := vNewCases(stage)
	ramPal := []int64{1000, 2000, 3000, 4000, 1 << 30, 2 << 30, 3758096384, 8 << 30, 64 << 30, 95, 100, 19, 20}
	scrPal := []int64{0, 1000, 5000, 10 << 30, 64 << 20, 128 << 20, 200 << 20, 1 << 40}
	for i := 0; i < n; i++ {
		if only >= 0 && i != only {
			continue
		}
		r := vCaseRand(seed, i)
		var tags []string
		nt := 1 + r.Intn(12)
		if r.Chance(1, 40) {
			nt = 0
		}
		nonsane := r.Chance(1, 12)
		if nonsane && nt > 5 {
			nt = 1 + r.Intn(5)
		}
		overflow := r.Chance(1, 10)
		tiesOnly := r.Chance(1, 4)
		var types []c16Type
		cc := &arvados.Cluster{InstanceTypes: arvados.InstanceTypeMap{}}
		for k := 0; k < nt; k++ {
			ty := c16Type{id: k}
			switch {
			case tiesOnly:
				ty.priceQ = int64(r.Intn(2))
			case r.Chance(1, 6):
				ty.priceQ = int64(r.Intn(1000))
			default:
				ty.priceQ = int64(r.Intn(6))
			}
			ty.ram = ramPal[r.Intn(len(ramPal))]
			if r.Chance(1, 3) {
				ty.ram += int64(r.Intn(5)) - 2
			}
			if k > 0 && r.Chance(1, 4) { // same specs as an earlier type (twins / comparable specs)
				o := types[r.Intn(k)]
				ty.ram = o.ram
				if r.Bool() {
					ty.vcpus = o.vcpus
				}
			}
			if ty.vcpus == 0 {
				ty.vcpus = 1 + r.Intn(8)
			}
			ty.scratch = scrPal[r.Intn(len(scrPal))]
			if r.Chance(1, 3) {
				ty.scratch += int64(r.Intn(3)) - 1
				if ty.scratch < 0 {
					ty.scratch = 0
				}
			}
			ty.pre = r.Chance(1, 3)
			if nonsane && r.Chance(1, 2) {
				if r.Bool() {
					ty.ram = -int64(1 + r.Intn(10))
				} else {
					ty.vcpus = -(1 + r.Intn(3))
				}
				if r.Bool() {
					ty.priceQ = 0
				}
			}
			if overflow && r.Chance(1, 3) {
				ty.ram = []int64{1<<63 - 1, 1 << 62, 97085495124787115, 97085495124787116}[r.Intn(4)]
			}
			types = append(types, ty)
			name := fmt.Sprintf("t%d", k)
			cc.InstanceTypes[name] = arvados.InstanceType{Name: name, ProviderType: "p" + name, VCPUs: ty.vcpus,
				RAM: arvados.ByteSize(ty.ram), Scratch: arvados.ByteSize(ty.scratch), Price: float64(ty.priceQ) / 4, Preemptible: ty.pre}
		}
		reserve := []int64{0, 0, 1, 1000, 256 << 20, 550 << 20}[r.Intn(6)]
		if nonsane && r.Chance(1, 3) {
			reserve = -int64(r.Intn(2000))
		}
		cc.Containers.ReserveExtraRAM = arvados.ByteSize(reserve)
		ctr := &arvados.Container{}
		target := c16Type{ram: 1000, vcpus: 1}
		if nt > 0 {
			target = types[r.Intn(nt)]
		}
		// RAM around the target's boundary
		// one dimension is probed at the target's boundary (exact fit / one unit above / below); the
		// others are satisfied by the target unless probe == 4 (everything random)
		probe := r.Intn(5)
		pickFit := func(dim int) string {
			switch {
			case probe == dim:
				return r.Pick("exact", "above", "below")
			case probe == 3:
				return "exact"
			case probe == 4:
				return r.Pick("exact", "above", "below", "random")
			}
			return r.Pick("exact", "below", "low")
		}
		tags = append(tags, fmt.Sprintf("probe=%d", probe))
		fit := pickFit(0)
		var total int64 = -1
		switch fit {
		case "exact":
			total = c16TotalFor(r, target.ram)
		case "above":
			total = c16TotalFor(r, target.ram+1)
		case "below":
			total = c16TotalFor(r, target.ram-1)
		case "low":
			total = c16TotalFor(r, target.ram/2)
		}
		if total < 0 {
			fit = "random"
			total = int64(r.Intn(5000))
			if r.Bool() {
				total = int64(r.Intn(9)) << 30
			}
		}
		tags = append(tags, "ramfit="+fit)
		if reserve > total && !nonsane && r.Chance(3, 4) {
			reserve = total / int64(1+r.Intn(3))
			cc.Containers.ReserveExtraRAM = arvados.ByteSize(reserve)
		}
		x := total - reserve
		if x < 0 && !nonsane {
			x = 0
		}
		if nonsane && x < 0 {
			ctr.RuntimeConstraints.RAM = x
		} else {
			switch r.Intn(3) {
			case 0:
				ctr.RuntimeConstraints.RAM = x
			case 1:
				ctr.RuntimeConstraints.KeepCacheRAM = x
			default:
				ctr.RuntimeConstraints.RAM = x / 2
				ctr.RuntimeConstraints.KeepCacheRAM = x - x/2
			}
		}
		if overflow {
			tags = append(tags, "overflow")
			switch r.Intn(4) {
			case 0: // sum*100 crosses 2^63
				ctr.RuntimeConstraints.RAM = 92233720368547758 + int64(r.Intn(3)) - 1 - reserve
				ctr.RuntimeConstraints.KeepCacheRAM = 0
			case 1: // sum crosses 2^63
				ctr.RuntimeConstraints.RAM = 1<<63 - 1 - int64(r.Intn(3))
				ctr.RuntimeConstraints.KeepCacheRAM = int64(r.Intn(5))
			case 2:
				ctr.RuntimeConstraints.RAM = 1 << 62
				ctr.RuntimeConstraints.KeepCacheRAM = 1 << 62
			default:
				ctr.RuntimeConstraints.RAM = 3 << 60
			}
		}
		// VCPUs
		vf := pickFit(1)
		switch vf {
		case "exact":
			ctr.RuntimeConstraints.VCPUs = target.vcpus
		case "above":
			ctr.RuntimeConstraints.VCPUs = target.vcpus + 1
		case "below":
			ctr.RuntimeConstraints.VCPUs = target.vcpus - 1
		case "low":
			ctr.RuntimeConstraints.VCPUs = target.vcpus / 2
		default:
			ctr.RuntimeConstraints.VCPUs = r.Intn(10)
		}
		if !nonsane && ctr.RuntimeConstraints.VCPUs < 0 {
			ctr.RuntimeConstraints.VCPUs = 0
		}
		tags = append(tags, "cpufit="+vf)
		// image
		var img int64
		pdhmode := -1
		if r.Chance(1, 2) {
			pdhmode = 0
			if r.Chance(1, 4) {
				pdhmode = 1 + r.Intn(10)
			}
			sz := []int64{0, 1, 121, 122, 123, 163, 164, 165, 205, 206, 207, 80 + 42*3, 80 + 42*160 - 1, 80 + 42*160}[r.Intn(14)]
			if overflow && r.Chance(1, 2) {
				sz = []int64{1<<63 - 1, 5772436045905, 5772436045906, 1 << 40}[r.Intn(4)]
			}
			ctr.ContainerImage = c16PDH(r, sz, pdhmode)
			img = estimateDockerImageSize(ctr.ContainerImage)
			if img > 0 && 2*img > target.scratch && !overflow && r.Chance(3, 4) {
				// keep most cases satisfiable: an image the target cannot hold only sometimes
				ctr.ContainerImage = c16PDH(r, []int64{0, 121, 122 + int64(r.Intn(41))}[r.Intn(3)], pdhmode)
				img = estimateDockerImageSize(ctr.ContainerImage)
			}
			tags = append(tags, fmt.Sprintf("pdhmode=%d", pdhmode))
		} else if r.Chance(1, 6) {
			ctr.ContainerImage = r.Pick("", "arvados/jobs:latest", "d41d8cd98f00b204e9800998ecf8427e", "+5")
			tags = append(tags, "pdh=junk")
		}
		// scratch around the target's boundary
		sf := pickFit(2)
		if sf == "low" {
			sf = r.Pick("none", "low")
		}
		wantScr := int64(-1)
		switch sf {
		case "exact":
			wantScr = target.scratch
		case "above":
			wantScr = target.scratch + 1
		case "below":
			wantScr = target.scratch - 1
		case "low":
			wantScr = target.scratch / 2
		case "random":
			wantScr = int64(r.Intn(6000))
		}
		var mounts [][2]int64 // (isTmp, capacity) in generation order
		if wantScr >= 0 {
			sum := wantScr - img // needScratch = max(sum, img) + img
			if sum < img {
				sum = wantScr // image dominates or no exact hit possible: still a boundary for img == 0
			}
			if sum < 0 {
				sum = 0
			}
			nm := 1 + r.Intn(3)
			ctr.Mounts = map[string]arvados.Mount{}
			for k := 0; k < nm; k++ {
				c := sum
				if k < nm-1 {
					c = 0
					if sum > 0 {
						c = int64(r.U64() % uint64(sum+1))
					}
				}
				sum -= c
				ctr.Mounts[fmt.Sprintf("/tmp%d", k)] = arvados.Mount{Kind: "tmp", Capacity: c}
				mounts = append(mounts, [2]int64{1, c})
			}
			for k := 0; k < r.Intn(3); k++ {
				kind := r.Pick("collection", "TMP", "", "json", "tmpfs")
				c := int64(r.Intn(100000))
				ctr.Mounts[fmt.Sprintf("/other%d", k)] = arvados.Mount{Kind: kind, Capacity: c}
				mounts = append(mounts, [2]int64{0, c})
			}
			if nonsane && r.Chance(1, 3) {
				c := -int64(r.Intn(3000))
				ctr.Mounts["/neg"] = arvados.Mount{Kind: "tmp", Capacity: c}
				mounts = append(mounts, [2]int64{1, c})
			}
			if overflow && r.Chance(1, 3) {
				c := int64(1<<63 - 1 - int64(r.Intn(2000)))
				ctr.Mounts["/big"] = arvados.Mount{Kind: "tmp", Capacity: c}
				mounts = append(mounts, [2]int64{1, c})
			}
		}
		tags = append(tags, "scrfit="+sf)
		pf := r.Chance(9, 10)
		ctr.SchedulingParameters.Preemptible = target.pre == pf
		if nonsane {
			tags = append(tags, "nonsane")
		}

		// ---- the implementation ----
		got, err := ChooseInstanceType(cc, ctr)
		scr := EstimateScratchSpace(ctr)
		kind, id := 3, 0
		var avail []string
		switch e := err.(type) {
		case nil:
			if ent, ok := cc.InstanceTypes[got.Name]; ok && ent == got {
				kind = 0
				fmt.Sscanf(got.Name, "t%d", &id)
			}
		case ConstraintsNotSatisfiableError:
			kind = 2
			for _, a := range e.AvailableTypes {
				var k int
				fmt.Sscanf(a.Name, "t%d", &k)
				if ent, ok := cc.InstanceTypes[a.Name]; !ok || ent != a {
					kind = 3
				}
				avail = append(avail, gN(int64(k)))
			}
		default:
			if err == ErrInstanceTypesNotConfigured {
				kind = 1
			}
		}
		tags = append(tags, fmt.Sprintf("kind=%d", kind), fmt.Sprintf("nt=%d", nt))

		var tys []string
		for _, ty := range types {
			tys = append(tys, fmt.Sprintf("T %s %s %s %s %s %s", gN(int64(ty.id)), gZ(ty.priceQ), gZ(ty.ram), gZ(int64(ty.vcpus)), gZ(ty.scratch), gBool(ty.pre)))
		}
		var ms []string
		for _, m := range mounts {
			ms = append(ms, fmt.Sprintf("(%s, %s)", gBool(m[0] == 1), gZ(m[1])))
		}
		term := fmt.Sprintf("mkcase %s %s (mkctr %s %s %s %s %s %s) %s %s %s %s",
			gList(tys), gZ(reserve),
			gZ(ctr.RuntimeConstraints.RAM), gZ(ctr.RuntimeConstraints.KeepCacheRAM), gZ(int64(ctr.RuntimeConstraints.VCPUs)),
			gList(ms), gStr(ctr.ContainerImage), gBool(ctr.SchedulingParameters.Preemptible),
			gN(int64(kind)), gN(int64(id)), gList(avail), gZ(scr))
		desc := map[string]interface{}{
			"types": tys, "reserve": reserve, "ram": ctr.RuntimeConstraints.RAM, "keep_cache_ram": ctr.RuntimeConstraints.KeepCacheRAM,
			"vcpus": ctr.RuntimeConstraints.VCPUs, "mounts": mounts, "image": ctr.ContainerImage,
			"preemptible": ctr.SchedulingParameters.Preemptible, "kind": kind, "chosen": id, "avail": avail, "scratch": scr,
		}
		cs.Add(i, term, desc, nt >= 2, tags...)
	}
	cs.Write()
}
