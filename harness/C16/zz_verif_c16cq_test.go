//go:build verif

package dispatchcloud

import (
	"encoding/json"
	"errors"
	"fmt"
	"io"
	"io/ioutil"
	"os"
	"runtime"
	"sort"
	"strings"
	"sync"
	"testing"
	"time"

	"git.arvados.org/arvados.git/lib/dispatchcloud/container"
	"git.arvados.org/arvados.git/sdk/go/arvados"
	"github.com/sirupsen/logrus"
)

// C16 stage "cq": the real container.Queue, constructed the way the dispatcher constructs it
// (container.NewQueue(logger, reg, disp.typeChooser, client) with disp.typeChooser = ChooseInstanceType on
// disp.Cluster), against a stub API server.  One judged Update() per case: which records become queue
// entries with which InstanceType, and which get "cancel with the ChooseInstanceType error in
// runtime_status".  The dispatcher may have just started (records are first seen Locked / Running by
// this dispatcher's token) or have polled once before (entries already cached, things changed since).
// One Gallina `case` (coq/model/C16_cq_run.v) per scenario.

const cqMe = "zzzzz-gj3su-verifc16cq00000"

type cqRec struct {
	id           int
	state        int // 0 Queued 1 Locked 2 Running 3 Complete 4 Cancelled
	prio         int64
	mine         bool
	errs         string            // runtime_status.error
	ctr          arvados.Container // the immutable part: constraints, mounts, image, scheduling parameters, created_at
	fault        int               // 1 lock fails, 2 runtime_status update fails, 3 cancel fails (judged Update only)
	warmLockFail bool              // the lock request fails during the first, unjudged poll
}

var cqStates = []arvados.ContainerState{arvados.ContainerStateQueued, arvados.ContainerStateLocked, arvados.ContainerStateRunning,
	arvados.ContainerStateComplete, arvados.ContainerStateCancelled}

func cqUUID(i int) string { return fmt.Sprintf("zzzzz-dz642-%015d", i) }
func cqNum(u string) int {
	var n int
	if len(u) >= 15 {
		fmt.Sscanf(u[len(u)-15:], "%d", &n)
	}
	return n
}

type cqAPI struct {
	mtx     sync.Mutex
	db      map[int]*cqRec
	cc      *arvados.Cluster
	faults  bool             // the records' faults are active (judged Update)
	warming bool             // the first, unjudged poll
	calls   map[int][]string // per container, in order
	pageMax int              // a list response carries at most this many items (the controller's response size limit)
	pages   int              // list responses that were cut short
}

// Every answer reaches the caller the way the real arvados.Client delivers it: as JSON decoded into dst
// (so whatever dst already holds is merged with, not replaced by, the answer).  A list answer carries only
// the selected attributes, and "mounts" is always an object.
func cqDecode(dst interface{}, v interface{}) error {
	if dst == nil {
		return nil
	}
	buf, err := json.Marshal(v)
	if err != nil {
		return err
	}
	return json.Unmarshal(buf, dst)
}

func cqItem(c arvados.Container, sel []string) map[string]interface{} {
	var all map[string]interface{}
	buf, _ := json.Marshal(c)
	json.Unmarshal(buf, &all)
	if all["mounts"] == nil {
		all["mounts"] = map[string]interface{}{}
	}
	if len(sel) == 0 {
		return all
	}
	r := map[string]interface{}{}
	for _, k := range sel {
		if v, ok := all[k]; ok {
			r[k] = v
		}
	}
	return r
}

func (a *cqAPI) ctr(r *cqRec) arvados.Container {
	c := r.ctr
	c.UUID, c.State, c.Priority = cqUUID(r.id), cqStates[r.state], r.prio
	if r.mine {
		c.LockedByUUID = cqMe
	}
	if r.errs != "" {
		c.RuntimeStatus = map[string]interface{}{"error": r.errs}
	}
	return c
}

func (a *cqAPI) fault(r *cqRec, k int) bool {
	return (a.faults && r.fault == k) || (a.warming && k == 1 && r.warmLockFail)
}

func (a *cqAPI) RequestAndDecode(dst interface{}, method, path string, body io.Reader, params interface{}) error {
	a.mtx.Lock()
	defer a.mtx.Unlock()
	switch {
	case method == "GET" && path == "arvados/v1/api_client_authorizations/current":
		return cqDecode(dst, arvados.APIClientAuthorization{UUID: cqMe})
	case method == "GET" && path == "arvados/v1/containers":
		p := params.(arvados.ResourceListParams)
		var ids []int
		for id := range a.db {
			ids = append(ids, id)
		}
		sort.Ints(ids)
		var items []map[string]interface{}
		for _, id := range ids {
			r := a.db[id]
			ok := true
			for _, f := range p.Filters {
				switch {
				case f.Attr == "locked_by_uuid" && f.Operator == "=":
					ok = ok && r.mine && f.Operand == cqMe
				case f.Attr == "state" && f.Operator == "=":
					ok = ok && cqStates[r.state] == f.Operand.(arvados.ContainerState)
				case f.Attr == "priority" && f.Operator == ">":
					ok = ok && r.prio > 0
				case f.Attr == "uuid" && f.Operator == "in":
					in := false
					for _, u := range f.Operand.([]string) {
						in = in || u == cqUUID(id)
					}
					ok = ok && in
				case f.Attr == "uuid" && f.Operator == ">":
					ok = ok && cqUUID(id) > f.Operand.(string)
				default:
					return fmt.Errorf("stub: unsupported filter %v", f)
				}
			}
			if ok {
				items = append(items, cqItem(a.ctr(r), p.Select))
			}
		}
		if p.Offset >= len(items) {
			items = nil
		} else {
			items = items[p.Offset:]
		}
		if p.Limit != nil && len(items) > *p.Limit {
			items = items[:*p.Limit]
		}
		if a.pageMax > 0 && len(items) > a.pageMax {
			items = items[:a.pageMax]
			a.pages++
		}
		if items == nil {
			items = []map[string]interface{}{}
		}
		return cqDecode(dst, map[string]interface{}{"items": items})
	case method == "GET" && strings.HasPrefix(path, "arvados/v1/containers/"):
		id := cqNum(path)
		a.calls[id] = append(a.calls[id], "AGet")
		if r := a.db[id]; r != nil {
			return cqDecode(dst, a.ctr(r))
		}
		return errors.New("stub: not found")
	case method == "POST" && strings.HasSuffix(path, "/lock"):
		id := cqNum(strings.TrimSuffix(path, "/lock"))
		r := a.db[id]
		if r == nil || r.state != 0 || a.fault(r, 1) {
			a.calls[id] = append(a.calls[id], "ALock false")
			return errors.New("stub: cannot lock")
		}
		r.state, r.mine = 1, true
		a.calls[id] = append(a.calls[id], "ALock true")
		return cqDecode(dst, a.ctr(r))
	case method == "POST" && strings.HasSuffix(path, "/unlock"):
		id := cqNum(strings.TrimSuffix(path, "/unlock"))
		r := a.db[id]
		if r == nil || r.state != 1 || !r.mine {
			a.calls[id] = append(a.calls[id], "AUnlock false")
			return errors.New("stub: cannot unlock")
		}
		r.state, r.mine = 0, false
		a.calls[id] = append(a.calls[id], "AUnlock true")
		return cqDecode(dst, a.ctr(r))
	case method == "PUT" && strings.HasPrefix(path, "arvados/v1/containers/"):
		id := cqNum(path)
		r := a.db[id]
		switch p := params.(type) {
		case map[string]map[string]map[string]interface{}:
			msg, _ := p["container"]["runtime_status"]["error"].(string)
			kind := 3
			if r != nil {
				kind = cqErrKind(a.cc, r, msg)
			}
			if r == nil || !r.mine || (r.state != 1 && r.state != 2) || a.fault(r, 2) {
				a.calls[id] = append(a.calls[id], fmt.Sprintf("ASetErr %s false", gN(int64(kind))))
				return errors.New("stub: cannot update runtime_status")
			}
			r.errs = msg
			a.calls[id] = append(a.calls[id], fmt.Sprintf("ASetErr %s true", gN(int64(kind))))
		case map[string]map[string]interface{}:
			if p["container"]["state"] != arvados.ContainerStateCancelled {
				return fmt.Errorf("stub: unsupported update %v", p)
			}
			if r == nil || r.state >= 3 || a.fault(r, 3) {
				a.calls[id] = append(a.calls[id], "ACancel false")
				return errors.New("stub: cannot cancel")
			}
			r.state, r.mine = 4, false
			a.calls[id] = append(a.calls[id], "ACancel true")
		default:
			return fmt.Errorf("stub: unsupported update %T", params)
		}
		if c, ok := dst.(*arvados.Container); ok && c != nil {
			return cqDecode(c, a.ctr(r))
		}
		return nil
	}
	return errors.New("stub: unexpected request " + method + " " + path)
}

// class of a runtime_status error message: 0 empty, 1 the message of the ConstraintsNotSatisfiableError that
// ChooseInstanceType returns for this container, 2 the message of ErrInstanceTypesNotConfigured, 3 anything else
func cqErrKind(cc *arvados.Cluster, r *cqRec, msg string) int {
	if msg == "" {
		return 0
	}
	c := r.ctr
	_, err := ChooseInstanceType(cc, &c)
	if err != nil && msg == err.Error() {
		if _, ok := err.(ConstraintsNotSatisfiableError); ok {
			return 1
		}
		if err == ErrInstanceTypesNotConfigured {
			return 2
		}
	}
	return 3
}

// wait until the goroutines started by addEnt have finished (they only talk to the stub); false = they did
// not within a very generous bound
func cqSettle(base int) bool {
	deadline := time.Now().Add(60 * time.Second)
	quiet := 0
	for time.Now().Before(deadline) {
		if runtime.NumGoroutine() <= base {
			quiet++
			if quiet >= 2 {
				return true
			}
		} else {
			quiet = 0
		}
		runtime.Gosched()
		time.Sleep(50 * time.Microsecond)
	}
	return false
}

func cqSameConstraints(a, b arvados.Container) bool {
	if a.RuntimeConstraints.VCPUs != b.RuntimeConstraints.VCPUs || a.RuntimeConstraints.RAM != b.RuntimeConstraints.RAM ||
		a.RuntimeConstraints.KeepCacheRAM != b.RuntimeConstraints.KeepCacheRAM || a.ContainerImage != b.ContainerImage ||
		a.SchedulingParameters.Preemptible != b.SchedulingParameters.Preemptible || len(a.Mounts) != len(b.Mounts) {
		return false
	}
	for k, m := range a.Mounts {
		if n, ok := b.Mounts[k]; !ok || n.Kind != m.Kind || n.Capacity != m.Capacity {
			return false
		}
	}
	return true
}

// Entries() as Gallina terms, sorted by uuid; ok = every entry carries the constraints of its record
func cqEntries(cq *container.Queue, cc *arvados.Cluster, orig map[int]arvados.Container) (r []string, ok bool) {
	ents, _ := cq.Entries()
	var us []string
	for u := range ents {
		us = append(us, u)
	}
	sort.Strings(us)
	stn := map[arvados.ContainerState]int{arvados.ContainerStateQueued: 0, arvados.ContainerStateLocked: 1, arvados.ContainerStateRunning: 2,
		arvados.ContainerStateComplete: 3, arvados.ContainerStateCancelled: 4}
	ok = true
	for _, u := range us {
		e := ents[u]
		st, known := stn[e.Container.State]
		if !known {
			st = 5
		}
		ty := "None"
		if e.InstanceType != (arvados.InstanceType{}) {
			id := 999 // not a configured type
			if it, found := cc.InstanceTypes[e.InstanceType.Name]; found && it == e.InstanceType {
				fmt.Sscanf(it.Name, "t%d", &id)
			}
			ty = "(Some " + gN(int64(id)) + ")"
		}
		if o, found := orig[cqNum(u)]; !found || !cqSameConstraints(o, e.Container) || e.Container.UUID != u {
			ok = false
		}
		r = append(r, fmt.Sprintf("CE %s %s %s %s", gN(int64(cqNum(u))), gN(int64(st)), gZ(e.Container.Priority), ty))
	}
	return
}

func (a *cqAPI) dump(cc *arvados.Cluster) []string {
	a.mtx.Lock()
	defer a.mtx.Unlock()
	var ids []int
	for id := range a.db {
		ids = append(ids, id)
	}
	sort.Ints(ids)
	var r []string
	for _, id := range ids {
		rec := a.db[id]
		r = append(r, fmt.Sprintf("DB %s %s %s %s %s", gN(int64(id)), gN(int64(rec.state)), gZ(rec.prio), gBool(rec.mine),
			gN(int64(cqErrKind(cc, rec, rec.errs)))))
	}
	return r
}

func TestVerifC16CQ(t *testing.T) {
	seed := vSeed()
	n := vEnvInt("VERIF_N", 300)
	only := vOnly()
	stage := os.Getenv("VERIF_STAGE")
	if stage == "" {
		stage = "cq"
	}
	cs := vNewCases(stage)
	quiet := logrus.New()
	quiet.SetOutput(ioutil.Discard)
	ramPal := []int64{1000, 2000, 4000, 8000}
	scrPal := []int64{0, 1000, 5000}
	t0 := time.Date(2024, 1, 1, 0, 0, 0, 0, time.UTC)
	for i := 0; i < n; i++ {
		if only >= 0 && i != only {
			continue
		}
		r := vCaseRand(seed, i)
		var tags []string
		// ---- instance types ----
		nt := 1 + r.Intn(4)
		if r.Chance(1, 30) {
			nt = 0
		}
		var types []c16Type
		cc := &arvados.Cluster{InstanceTypes: arvados.InstanceTypeMap{}}
		for k := 0; k < nt; k++ {
			ty := c16Type{id: k, priceQ: int64(r.Intn(4)), ram: ramPal[r.Intn(len(ramPal))], vcpus: 1 + r.Intn(4),
				scratch: scrPal[r.Intn(len(scrPal))], pre: r.Chance(1, 5)}
			if k > 0 && r.Chance(1, 3) { // twin of an earlier type: ties among the cheapest
				o := types[r.Intn(k)]
				ty.ram, ty.vcpus, ty.scratch, ty.pre = o.ram, o.vcpus, o.scratch, o.pre
				if r.Bool() {
					ty.priceQ = o.priceQ
				}
			}
			types = append(types, ty)
			name := fmt.Sprintf("t%d", k)
			cc.InstanceTypes[name] = arvados.InstanceType{Name: name, ProviderType: "p" + name, VCPUs: ty.vcpus,
				RAM: arvados.ByteSize(ty.ram), Scratch: arvados.ByteSize(ty.scratch), Price: float64(ty.priceQ) / 4, Preemptible: ty.pre}
		}
		reserve := []int64{0, 0, 100}[r.Intn(3)]
		cc.Containers.ReserveExtraRAM = arvados.ByteSize(reserve)
		// ---- container records ----
		nc := 1 + r.Intn(6)
		api := &cqAPI{db: map[int]*cqRec{}, calls: map[int][]string{}, cc: cc}
		// the controller cuts list responses short (its response size limit): the queue has to page
		if r.Chance(1, 2) {
			api.pageMax = 1 + r.Intn(3)
			if r.Chance(1, 2) {
				nc += r.Intn(4)
			}
		}
		orig := map[int]arvados.Container{}
		var later []*cqRec // arrive after the first poll
		var consS []string
		warm := r.Intn(3) > 0
		for c := 1; c <= nc; c++ {
			rec := &cqRec{id: c}
			target := c16Type{ram: 1000, vcpus: 1}
			if nt > 0 {
				target = types[r.Intn(nt)]
			}
			// constraints: fit the target exactly, or exceed it / every type in one dimension
			ctr := arvados.Container{CreatedAt: t0.Add(time.Duration(r.Intn(100)) * time.Minute)}
			fit := r.Pick("exact", "exact", "exact", "ram+1", "cpu+1", "scratch+1", "huge-cpu", "huge-ram", "image", "low")
			total := c16TotalFor(r, target.ram)
			if total < 0 {
				total = target.ram * 95 / 100
			}
			ctr.RuntimeConstraints.VCPUs = target.vcpus
			wantScr := target.scratch
			switch fit {
			case "ram+1":
				if x := c16TotalFor(r, target.ram+1); x >= 0 {
					total = x
				}
			case "cpu+1":
				ctr.RuntimeConstraints.VCPUs++
			case "scratch+1":
				wantScr++
			case "huge-cpu":
				ctr.RuntimeConstraints.VCPUs = 64
			case "huge-ram":
				total = 1 << 40
			case "image":
				ctr.ContainerImage = c16PDH(r, 122, 0) // 64 MiB image: needs 128 MiB of scratch, more than any type has
			case "low":
				total /= 2
				ctr.RuntimeConstraints.VCPUs = 1
				wantScr = 0
			}
			x := total - reserve
			if x < 0 {
				x = 0
			}
			if r.Bool() {
				ctr.RuntimeConstraints.RAM = x
			} else {
				ctr.RuntimeConstraints.RAM = x / 2
				ctr.RuntimeConstraints.KeepCacheRAM = x - x/2
			}
			var mounts [][2]int64
			if wantScr > 0 || r.Chance(1, 3) {
				ctr.Mounts = map[string]arvados.Mount{r.Pick("/tmp", "/scratch", "/var/spool/cwl"): {Kind: "tmp", Capacity: wantScr}}
				mounts = append(mounts, [2]int64{1, wantScr})
				if r.Chance(1, 4) {
					ctr.Mounts["/keep"] = arvados.Mount{Kind: "collection", Capacity: 12345}
					mounts = append(mounts, [2]int64{0, 12345})
				}
			}
			ctr.SchedulingParameters.Preemptible = target.pre == r.Chance(9, 10)
			rec.ctr = ctr
			orig[c] = ctr
			var ms []string
			for _, m := range mounts {
				ms = append(ms, fmt.Sprintf("(%s, %s)", gBool(m[0] == 1), gZ(m[1])))
			}
			consS = append(consS, fmt.Sprintf("(%s, mkctr %s %s %s %s %s %s)", gN(int64(c)),
				gZ(ctr.RuntimeConstraints.RAM), gZ(ctr.RuntimeConstraints.KeepCacheRAM), gZ(int64(ctr.RuntimeConstraints.VCPUs)),
				gList(ms), gStr(ctr.ContainerImage), gBool(ctr.SchedulingParameters.Preemptible)))
			// state when first seen
			switch x := r.Intn(20); {
			case x < 7:
				rec.state, rec.prio = 0, int64(1+r.Intn(10))
			case x < 8:
				rec.state, rec.prio = 0, 0
			case x < 14:
				rec.state, rec.prio, rec.mine = 1, int64(1+r.Intn(10)), true // locked by the previous dispatcher process
			case x < 15:
				rec.state, rec.prio, rec.mine = 1, 0, true
			case x < 18:
				rec.state, rec.prio, rec.mine = 2, int64(r.Intn(10)), true
			case x < 19:
				rec.state, rec.prio = 1, 5 // locked by somebody else
			default:
				rec.state, rec.prio = 3+r.Intn(2), 5
			}
			if r.Chance(1, 6) {
				rec.fault = 1 + r.Intn(3)
			}
			rec.warmLockFail = r.Chance(1, 5)
			if warm && r.Chance(1, 3) {
				later = append(later, rec)
			} else {
				api.db[c] = rec
			}
		}
		disp := &dispatcher{Cluster: cc}
		cq := container.NewQueue(quiet, nil, disp.typeChooser, api)
		ok := true
		if warm {
			// first poll, not judged (the lock requests of some cancel goroutines fail: the judged poll retries)
			base := runtime.NumGoroutine()
			api.warming = true
			if err := cq.Update(); err != nil {
				t.Fatal(err)
			}
			ok = cqSettle(base) && ok
			api.mtx.Lock()
			api.warming = false
			api.mtx.Unlock()
			// things happen between two polls (legal transitions only: Queued <-> Locked -> Running -> final)
			var ids []int
			for id := range api.db {
				ids = append(ids, id)
			}
			sort.Ints(ids)
			for _, id := range ids {
				rec := api.db[id]
				switch r.Intn(9) {
				case 0:
					if rec.state <= 2 {
						rec.state, rec.mine = 3+r.Intn(2), false
					}
				case 1:
					if rec.state == 1 && rec.mine {
						rec.state = 2
					}
				case 2:
					rec.prio = int64(r.Intn(3) * 5)
				case 3:
					if rec.state == 1 && rec.mine { // unlocked, or taken by somebody else
						rec.state, rec.mine = r.Intn(2), false
					}
				case 4:
					if rec.state == 0 && rec.prio > 0 { // locked through another path
						rec.state, rec.mine = 1, true
					}
				case 5:
					if r.Chance(1, 3) {
						delete(api.db, id)
					}
				}
			}
			for _, rec := range later {
				api.db[rec.id] = rec
			}
			tags = append(tags, "warm")
		} else {
			tags = append(tags, "restart")
		}
		// ---- the judged Update ----
		curS, okc := cqEntries(cq, cc, orig)
		ok = ok && okc
		dbS := api.dump(cc)
		var faultS []string
		{
			var ids []int
			for id := range api.db {
				ids = append(ids, id)
			}
			sort.Ints(ids)
			for _, id := range ids {
				if f := api.db[id].fault; f > 0 {
					faultS = append(faultS, fmt.Sprintf("(%s, %s)", gN(int64(id)), gN(int64(f))))
				}
			}
		}
		api.mtx.Lock()
		api.calls = map[int][]string{}
		api.faults = true
		api.mtx.Unlock()
		base := runtime.NumGoroutine()
		err := cq.Update()
		ok = cqSettle(base) && ok && err == nil
		afterS, oka := cqEntries(cq, cc, orig)
		ok = ok && oka
		dbAfterS := api.dump(cc)
		var callS []string
		ncancel := 0
		api.mtx.Lock()
		{
			var ids []int
			for id := range api.calls {
				ids = append(ids, id)
			}
			sort.Ints(ids)
			for _, id := range ids {
				callS = append(callS, fmt.Sprintf("(%s, %s)", gN(int64(id)), gList(api.calls[id])))
				ncancel++
			}
		}
		api.mtx.Unlock()
		var tys []string
		for _, ty := range types {
			tys = append(tys, fmt.Sprintf("T %s %s %s %s %s %s", gN(int64(ty.id)), gZ(ty.priceQ), gZ(ty.ram), gZ(int64(ty.vcpus)), gZ(ty.scratch), gBool(ty.pre)))
		}
		term := fmt.Sprintf("mkcq %s %s %s %s %s %s %s %s %s %s", gList(tys), gZ(reserve), gList(consS), gList(dbS), gList(curS), gList(faultS),
			gList(afterS), gList(callS), gList(dbAfterS), gBool(ok))
		desc := map[string]interface{}{"types(id,price*4,ram,vcpus,scratch,preemptible)": tys, "reserve": reserve,
			"constraints(uuid, ram keep_cache_ram vcpus mounts image preemptible)": consS,
			"db_before(uuid,state,prio,mine,errclass)":                             dbS, "entries_before(uuid,state,prio,type)": curS, "faults": faultS,
			"entries_after": afterS, "requests": callS, "db_after": dbAfterS, "ok": ok, "page_max(0 = unlimited)": api.pageMax}
		tags = append(tags, fmt.Sprintf("nt=%d", nt), fmt.Sprintf("cancels=%d", ncancel), fmt.Sprintf("entries=%d", len(afterS)),
			fmt.Sprintf("pagemax=%d", api.pageMax))
		if api.pages > 0 {
			tags = append(tags, "paged")
		}
		for _, e := range afterS {
			f := strings.Fields(e)
			tags = append(tags, "entstate="+f[2])
			if f[len(f)-1] == "None" {
				tags = append(tags, "enttype=none")
			}
		}
		cs.Add(i, term, desc, len(afterS)+ncancel >= 2, tags...)
	}
	cs.Write()
}
