//go:build verif

package scheduler

import (
	"encoding/json"
	"errors"
	"fmt"
	"io"
	"os"
	"runtime"
	"sort"
	"strings"
	"sync"
	"testing"
	"time"

	"git.arvados.org/arvados.git/lib/dispatchcloud/container"
	"git.arvados.org/arvados.git/lib/dispatchcloud/test"
	"git.arvados.org/arvados.git/sdk/go/arvados"
	"git.arvados.org/arvados.git/sdk/go/ctxlog"
)

// C16 stage "tq": the real (*Scheduler).runQueue reading the real container.Queue.  The queue polls a stub
// API server once; then priorities change on the server and the dispatcher makes lock / unlock / cancel
// requests through the queue (the responses carry the current priority and state); then one runQueue pass
// runs against the scripted recording pool of the runq stage, with no poll in between.  The pass is judged
// against the snapshot "as the API server last told this dispatcher" (poll records overridden by the later
// responses): coq/model/C16_tq.v.

const tqMe = "zzzzz-gj3su-verifc16tq00000"

type tqRec struct {
	id    int
	state int // index into rqStates
	prio  int64
	it    int
	ctr   arvados.Container
}

type tqAPI struct {
	mtx     sync.Mutex
	db      map[int]*tqRec
	pool    *rqPool
	pageMax int
	inPass  bool
	polled  map[int]string // uuid -> "E ..." of the record as last returned by a list request
	resps   []string       // "RS ..." for every successful lock / unlock / cancel before the pass
	locks   []string       // lock requests during the pass
}

func (a *tqAPI) ctr(r *tqRec) arvados.Container {
	c := r.ctr
	c.UUID, c.State, c.Priority = test.ContainerUUID(r.id), rqStates[r.state], r.prio
	if r.state == 1 || r.state == 2 {
		c.LockedByUUID = tqMe
	}
	return c
}

func tqDecode(dst interface{}, v interface{}) error {
	if dst == nil {
		return nil
	}
	buf, err := json.Marshal(v)
	if err != nil {
		return err
	}
	return json.Unmarshal(buf, dst)
}

func (a *tqAPI) answer(dst interface{}, r *tqRec) error {
	if !a.inPass {
		a.resps = append(a.resps, fmt.Sprintf("RS %s %s %s", gN(int64(r.id)), gN(int64(r.state)), gZ(r.prio)))
	}
	return tqDecode(dst, a.ctr(r))
}

func (a *tqAPI) RequestAndDecode(dst interface{}, method, path string, body io.Reader, params interface{}) error {
	a.mtx.Lock()
	defer a.mtx.Unlock()
	switch {
	case method == "GET" && path == "arvados/v1/api_client_authorizations/current":
		return tqDecode(dst, arvados.APIClientAuthorization{UUID: tqMe})
	case method == "GET" && path == "arvados/v1/containers":
		p := params.(arvados.ResourceListParams)
		var ids []int
		for id := range a.db {
			ids = append(ids, id)
		}
		sort.Ints(ids)
		var items []map[string]interface{}
		var recs []*tqRec
		for _, id := range ids {
			r := a.db[id]
			ok := true
			for _, f := range p.Filters {
				switch {
				case f.Attr == "locked_by_uuid" && f.Operator == "=":
					// every record of the snapshot is reported to this dispatcher, whatever its state
				case f.Attr == "state" && f.Operator == "=":
					ok = ok && rqStates[r.state] == f.Operand.(arvados.ContainerState)
				case f.Attr == "priority" && f.Operator == ">":
					ok = ok && r.prio > 0
				case f.Attr == "uuid" && f.Operator == "in":
					in := false
					for _, u := range f.Operand.([]string) {
						in = in || u == test.ContainerUUID(id)
					}
					ok = ok && in
				case f.Attr == "uuid" && f.Operator == ">":
					ok = ok && test.ContainerUUID(id) > f.Operand.(string)
				default:
					return fmt.Errorf("stub: unsupported filter %v", f)
				}
			}
			if ok {
				var all map[string]interface{}
				buf, _ := json.Marshal(a.ctr(r))
				json.Unmarshal(buf, &all)
				if all["mounts"] == nil {
					all["mounts"] = map[string]interface{}{}
				}
				item := all
				if len(p.Select) > 0 {
					item = map[string]interface{}{}
					for _, k := range p.Select {
						if v, ok := all[k]; ok {
							item[k] = v
						}
					}
				}
				items = append(items, item)
				recs = append(recs, r)
			}
		}
		if p.Offset >= len(items) {
			items, recs = nil, nil
		} else {
			items, recs = items[p.Offset:], recs[p.Offset:]
		}
		if p.Limit != nil && len(items) > *p.Limit {
			items, recs = items[:*p.Limit], recs[:*p.Limit]
		}
		if a.pageMax > 0 && len(items) > a.pageMax {
			items, recs = items[:a.pageMax], recs[:a.pageMax]
		}
		for _, r := range recs {
			a.polled[r.id] = fmt.Sprintf("E %s %s %s %s", gN(int64(r.id)), gN(int64(r.state)), gZ(r.prio), gN(int64(r.it)))
		}
		if items == nil {
			items = []map[string]interface{}{}
		}
		return tqDecode(dst, map[string]interface{}{"items": items})
	case method == "POST" && strings.HasSuffix(path, "/lock"):
		id := int(rqUUIDNum(strings.TrimSuffix(path, "/lock")))
		if a.inPass {
			a.locks = append(a.locks, gN(int64(id)))
		}
		r := a.db[id]
		if r == nil || r.state != 0 {
			return errors.New("stub: cannot lock")
		}
		r.state = 1
		return a.answer(dst, r)
	case method == "POST" && strings.HasSuffix(path, "/unlock"):
		id := int(rqUUIDNum(strings.TrimSuffix(path, "/unlock")))
		if a.inPass {
			a.pool.Lock()
			a.pool.log = append(a.pool.log, fmt.Sprintf("EUnlock %s", gN(int64(id))))
			a.pool.Unlock()
		}
		r := a.db[id]
		if r == nil || r.state != 1 {
			return errors.New("stub: cannot unlock")
		}
		r.state = 0
		return a.answer(dst, r)
	case method == "PUT" && strings.HasPrefix(path, "arvados/v1/containers/"):
		id := int(rqUUIDNum(path))
		r := a.db[id]
		p, isCancel := params.(map[string]map[string]interface{})
		if !isCancel || p["container"]["state"] != arvados.ContainerStateCancelled {
			return fmt.Errorf("stub: unsupported update %v", params)
		}
		if r == nil || r.state >= 3 {
			return errors.New("stub: cannot cancel")
		}
		r.state = 4
		return a.answer(dst, r)
	case method == "GET" && strings.HasPrefix(path, "arvados/v1/containers/"):
		if r := a.db[int(rqUUIDNum(path))]; r != nil {
			return tqDecode(dst, a.ctr(r))
		}
		return errors.New("stub: not found")
	}
	return errors.New("stub: unexpected request " + method + " " + path)
}

// priorities of the told snapshot (for the bound on tie arrangements)
func tqToldEnts(api *tqAPI, sn rqSnap) []rqEnt {
	prio := map[int]int64{}
	for _, e := range sn.ents {
		prio[e.id] = e.prio
	}
	for _, s := range api.resps {
		var id int
		var st int
		var p int64
		f := strings.Fields(strings.NewReplacer("%N", "", "%Z", "", "(", "", ")", "").Replace(s))
		fmt.Sscan(f[1], &id)
		fmt.Sscan(f[2], &st)
		fmt.Sscan(f[3], &p)
		prio[id] = p
	}
	var r []rqEnt
	for _, e := range sn.ents {
		e.prio = prio[e.id]
		r = append(r, e)
	}
	return r
}

func TestVerifC16TQ(t *testing.T) {
	seed := vSeed()
	n := vEnvInt("VERIF_N", 300)
	only := vOnly()
	stage := os.Getenv("VERIF_STAGE")
	if stage == "" {
		stage = "tq"
	}
	cs := vNewCases(stage)
	ctx := rqCtx()
	for i := 0; i < n; i++ {
		if only >= 0 && i != only {
			continue
		}
		r := vCaseRand(seed, i)
		sn, tags := rqGenSnap(r)
		for len(sn.ents) > 8 { // the interesting part is the history, not the length
			sn.ents = sn.ents[:8]
		}
		var its []arvados.InstanceType
		itID := map[string]int{}
		for k := 0; k < sn.nit; k++ {
			it := test.InstanceType(k + 1)
			its = append(its, it)
			itID[it.Name] = k
		}
		var api *tqAPI
		var cq *container.Queue
		var pool *rqPool
		var nops, nprio int
		quiet := ctxlog.FromContext(ctx)
		for try := 0; ; try++ {
			pool = &rqPool{running: map[string]time.Time{}, unalloc: map[arvados.InstanceType]int{}, create: map[string][]bool{},
				idle: map[string]int{}, killable: map[string]bool{}, itID: itID, quota: append([]bool(nil), sn.quota...)}
			api = &tqAPI{db: map[int]*tqRec{}, pool: pool, polled: map[int]string{}}
			if r.Chance(1, 3) {
				api.pageMax = 1 + r.Intn(3)
			}
			for _, e := range sn.ents {
				api.db[e.id] = &tqRec{id: e.id, state: e.st, prio: e.prio, it: e.it, ctr: arvados.Container{
					CreatedAt:          rqCreatedAt(e.created),
					RuntimeConstraints: arvados.RuntimeConstraints{VCPUs: 1 + e.it, RAM: int64(1+e.it) << 30},
					Mounts:             map[string]arvados.Mount{"/tmp": {Kind: "tmp", Capacity: int64(1+e.id) << 20}},
				}}
			}
			cq = container.NewQueue(quiet, nil, func(c *arvados.Container) (arvados.InstanceType, error) {
				if k := c.RuntimeConstraints.VCPUs - 1; k >= 0 && k < len(its) {
					return its[k], nil
				}
				return arvados.InstanceType{}, errors.New("no such type")
			}, api)
			if err := cq.Update(); err != nil {
				t.Fatal(err)
			}
			// ---- between the poll and the pass: priorities change on the server; the dispatcher locks /
			// unlocks / cancels through the queue and is told the current values in the responses ----
			nops, nprio = 0, 0
			quietTry := try >= 4 // give up on histories: the plain snapshot is within the bound
			newPrio := func(rec *tqRec) {
				switch r.Intn(4) {
				case 0:
					rec.prio = int64(20 + r.Intn(30)) // raised above everything
				case 1:
					rec.prio = int64(r.Intn(3)) // lowered, possibly to zero
				default:
					rec.prio += int64(r.Intn(7)) - 3 // crosses a neighbour
					if rec.prio < 0 {
						rec.prio = 0
					}
				}
				nprio++
			}
			for _, e := range sn.ents {
				if quietTry {
					break
				}
				rec := api.db[e.id]
				uuid := test.ContainerUUID(e.id)
				if r.Chance(1, 2) {
					newPrio(rec)
				}
				switch x := r.Intn(10); {
				case x < 5 && rec.state == 0:
					cq.Lock(uuid)
					nops++
				case x < 5 && rec.state == 1:
					cq.Unlock(uuid)
					nops++
					if r.Chance(1, 2) {
						if r.Chance(1, 2) {
							newPrio(rec)
						}
						cq.Lock(uuid)
						nops++
					}
				case x == 5:
					cq.Cancel(uuid)
					nops++
				case x == 6 && rec.state < 3:
					rec.state = 4 // cancelled by the user: the dispatcher is not told before the next poll
				case x == 7:
					cq.Lock(uuid) // fails unless Queued
					nops++
				}
				if r.Chance(1, 4) {
					newPrio(rec) // changed again after the response: not told
				}
			}
			if rqTieProduct(tqToldEnts(api, sn)) <= 150 || try >= 5 {
				break
			}
		}
		var unallocS, idleS, createS, runS, killS, createdS, polledS []string
		for k, it := range its {
			if sn.unalloc[k] >= 0 {
				pool.unalloc[it] = sn.unalloc[k]
				unallocS = append(unallocS, fmt.Sprintf("(%s, %s)", gN(int64(k)), gZ(int64(sn.unalloc[k]))))
			}
			pool.idle[it.Name] = sn.idle[k]
			idleS = append(idleS, fmt.Sprintf("(%s, %s)", gN(int64(k)), gZ(int64(sn.idle[k]))))
			pool.create[it.Name] = append([]bool(nil), sn.create[k]...)
			createS = append(createS, fmt.Sprintf("(%s, %s)", gN(int64(k)), rqBools(sn.create[k])))
		}
		for _, e := range sn.ents {
			uuid := test.ContainerUUID(e.id)
			if e.running {
				pool.running[uuid] = time.Time{}
				runS = append(runS, gN(int64(e.id)))
			}
			if e.killable {
				pool.killable[uuid] = true
				killS = append(killS, gN(int64(e.id)))
			}
			createdS = append(createdS, fmt.Sprintf("%d:%d", e.id, e.created))
			if s, ok := api.polled[e.id]; ok {
				polledS = append(polledS, s)
			}
		}
		api.mtx.Lock()
		api.inPass = true
		resps := append([]string(nil), api.resps...)
		api.mtx.Unlock()
		sch := New(ctx, cq, pool, nil, time.Minute, time.Second)
		base := runtime.NumGoroutine()
		sch.runQueue()
		rqSettle(base)
		api.mtx.Lock()
		locks := append([]string(nil), api.locks...)
		api.mtx.Unlock()
		pool.Lock()
		log := append([]string(nil), pool.log...)
		shut := append([]string(nil), pool.shut...)
		pool.Unlock()
		nstart := 0
		for _, l := range log {
			if strings.HasPrefix(l, "EStart") {
				nstart++
			}
			tags = append(tags, "ev="+strings.SplitN(l, " ", 2)[0])
		}
		term := fmt.Sprintf("mktq %s %s %s %s (mkstub %s %s %s %s) %s %s %s",
			gList(polledS), gList(resps), gList(runS), gList(unallocS),
			rqBools(sn.quota), gList(killS), gList(createS), gList(idleS),
			gList(log), gList(locks), gList(shut))
		desc := map[string]interface{}{"polled(uuid,state,prio,type)": polledS, "responses(uuid,state,prio) in order": resps,
			"created_at(uuid:minutes after t0, 0 = zero time)": createdS, "running": runS, "unalloc": unallocS, "quota": sn.quota,
			"killable": killS, "create": createS, "idle": idleS, "log": log, "locks": locks, "shutdown": shut, "page_max": api.pageMax}
		tags = append(tags, fmt.Sprintf("starts=%d", nstart), fmt.Sprintf("responses=%d", len(resps)), fmt.Sprintf("priochanges=%d", nprio), fmt.Sprintf("ops=%d", nops))
		cs.Add(i, term, desc, len(log) >= 2 && len(resps) >= 1, tags...)
	}
	cs.Write()
}
