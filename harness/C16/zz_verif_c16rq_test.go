//go:build verif

package scheduler

import (
	"context"
	"fmt"
	"io/ioutil"
	"os"
	"runtime"
	"strings"
	"sync"
	"testing"
	"time"

	"git.arvados.org/arvados.git/lib/dispatchcloud/container"
	"git.arvados.org/arvados.git/lib/dispatchcloud/test"
	"git.arvados.org/arvados.git/lib/dispatchcloud/worker"
	"git.arvados.org/arvados.git/sdk/go/arvados"
	"git.arvados.org/arvados.git/sdk/go/ctxlog"
	"github.com/sirupsen/logrus"
)

// C16 stage "runq" (also used by C14): the real (*Scheduler).runQueue against a recording, scripted
// stub pool and queue.  One Gallina `case` (coq/model/C16_runq_run.v) per generated snapshot.

type rqPool struct {
	sync.Mutex
	running  map[string]time.Time
	unalloc  map[arvados.InstanceType]int
	quota    []bool            // AtQuota answers, one per call, last one repeats
	create   map[string][]bool // Create answers per type name
	idle     map[string]int
	killable map[string]bool
	workers  map[worker.State]int
	log      []string
	shut     []string
	forgot   []string
	itID     map[string]int
	// optional scripting (C15 fixStaleLocks stage)
	cwHook  func() map[worker.State]int
	runHook func() map[string]time.Time
	subCh   chan struct{}
	// if set: what Running() answers from its second call on (the pool as it is when a goroutine runs)
	runningNow map[string]time.Time
	runCalls   int
}

func rqNext(l *[]bool) bool {
	if len(*l) == 0 {
		return false
	}
	b := (*l)[0]
	if len(*l) > 1 {
		*l = (*l)[1:]
	}
	return b
}

func (p *rqPool) Running() map[string]time.Time {
	if p.runHook != nil {
		return p.runHook()
	}
	p.Lock()
	defer p.Unlock()
	src := p.running
	if p.runningNow != nil && p.runCalls > 0 {
		src = p.runningNow
	}
	p.runCalls++
	r := map[string]time.Time{}
	for k, v := range src {
		r[k] = v
	}
	return r
}
func (p *rqPool) Unallocated() map[arvados.InstanceType]int {
	p.Lock()
	defer p.Unlock()
	r := map[arvados.InstanceType]int{}
	for k, v := range p.unalloc {
		r[k] = v
	}
	return r
}
func (p *rqPool) CountWorkers() map[worker.State]int {
	if p.cwHook != nil {
		return p.cwHook()
	}
	p.Lock()
	defer p.Unlock()
	r := map[worker.State]int{}
	for k, v := range p.workers {
		r[k] = v
	}
	return r
}
func (p *rqPool) AtQuota() bool {
	p.Lock()
	defer p.Unlock()
	return rqNext(&p.quota)
}
func (p *rqPool) Create(it arvados.InstanceType) bool {
	p.Lock()
	defer p.Unlock()
	l := p.create[it.Name]
	r := rqNext(&l)
	p.create[it.Name] = l
	p.log = append(p.log, fmt.Sprintf("ECreate %s %v", gN(int64(p.itID[it.Name])), r))
	return r
}
func (p *rqPool) Shutdown(it arvados.InstanceType) bool {
	p.Lock()
	defer p.Unlock()
	p.shut = append(p.shut, gN(int64(p.itID[it.Name])))
	return true
}
func (p *rqPool) StartContainer(it arvados.InstanceType, ctr arvados.Container) bool {
	p.Lock()
	defer p.Unlock()
	ok := p.idle[it.Name] > 0
	if ok {
		p.idle[it.Name]--
	}
	p.log = append(p.log, fmt.Sprintf("EStart %s %s %v", gN(int64(p.itID[it.Name])), gN(rqUUIDNum(ctr.UUID)), ok))
	return ok
}
func (p *rqPool) KillContainer(uuid, reason string) bool {
	p.Lock()
	defer p.Unlock()
	r := p.killable[uuid]
	p.log = append(p.log, fmt.Sprintf("EKill %s %v", gN(rqUUIDNum(uuid)), r))
	return r
}
func (p *rqPool) ForgetContainer(uuid string) {
	p.Lock()
	defer p.Unlock()
	p.forgot = append(p.forgot, gN(rqUUIDNum(uuid)))
}
func (p *rqPool) Subscribe() <-chan struct{} {
	if p.subCh != nil {
		return p.subCh
	}
	return make(chan struct{})
}
func (p *rqPool) Unsubscribe(<-chan struct{}) {}

type rqQueue struct {
	mtx     sync.Mutex
	ents    map[string]container.QueueEnt
	updated time.Time
	pool    *rqPool
	locks   []string
	cancels []string
	forgets []string
	unlocks []string
	entHook func() map[string]container.QueueEnt
	now     map[string]container.QueueEnt // if set: what Get answers (the queue as it is when a goroutine runs)
}

func (q *rqQueue) Entries() (map[string]container.QueueEnt, time.Time) {
	if q.entHook != nil {
		return q.entHook(), q.updated
	}
	r := map[string]container.QueueEnt{}
	for k, v := range q.ents {
		r[k] = v
	}
	return r, q.updated
}
func (q *rqQueue) Lock(uuid string) error {
	q.mtx.Lock()
	defer q.mtx.Unlock()
	q.locks = append(q.locks, gN(rqUUIDNum(uuid)))
	return nil
}
func (q *rqQueue) Unlock(uuid string) error {
	q.pool.Lock()
	q.pool.log = append(q.pool.log, fmt.Sprintf("EUnlock %s", gN(rqUUIDNum(uuid))))
	q.pool.Unlock()
	q.mtx.Lock()
	defer q.mtx.Unlock()
	q.unlocks = append(q.unlocks, gN(rqUUIDNum(uuid)))
	return nil
}
func (q *rqQueue) Cancel(uuid string) error {
	q.mtx.Lock()
	defer q.mtx.Unlock()
	q.cancels = append(q.cancels, gN(rqUUIDNum(uuid)))
	return nil
}
func (q *rqQueue) Forget(uuid string) {
	q.mtx.Lock()
	defer q.mtx.Unlock()
	q.forgets = append(q.forgets, gN(rqUUIDNum(uuid)))
}
func (q *rqQueue) Get(uuid string) (arvados.Container, bool) {
	if q.now != nil {
		e, ok := q.now[uuid]
		return e.Container, ok
	}
	e, ok := q.ents[uuid]
	return e.Container, ok
}
func (q *rqQueue) Subscribe() <-chan struct{}  { return make(chan struct{}) }
func (q *rqQueue) Unsubscribe(<-chan struct{}) {}
func (q *rqQueue) Update() error               { return nil }

func rqUUIDNum(u string) int64 {
	var n int64
	fmt.Sscanf(u[len(u)-15:], "%d", &n)
	return n
}

var rqStates = []arvados.ContainerState{arvados.ContainerStateQueued, arvados.ContainerStateLocked, arvados.ContainerStateRunning,
	arvados.ContainerStateComplete, arvados.ContainerStateCancelled, arvados.ContainerState("Bogus")}

// wait until the goroutines spawned by the pass (lockContainer, kill, cancel, requeue) have finished
func rqSettle(base int) {
	deadline := time.Now().Add(3 * time.Second)
	quiet := 0
	for time.Now().Before(deadline) {
		if runtime.NumGoroutine() <= base {
			quiet++
			if quiet >= 2 {
				return
			}
		} else {
			quiet = 0
		}
		runtime.Gosched()
		time.Sleep(50 * time.Microsecond)
	}
}

type rqEnt struct {
	id       int
	st       int
	prio     int64
	it       int
	running  bool
	killable bool
	created  int // created_at: 0 = zero time (what the package's own stub queues leave), k > 0 = rqT0 + k minutes
}

// created_at of generated containers (the real container.Queue selects created_at; runQueue must order by
// priority whatever the ages are)
var rqT0 = time.Date(2024, 1, 1, 0, 0, 0, 0, time.UTC)

func rqCreatedAt(k int) time.Time {
	if k <= 0 {
		return time.Time{}
	}
	return rqT0.Add(time.Duration(k) * time.Minute)
}

type rqSnap struct {
	nit     int
	ents    []rqEnt
	unalloc []int // -1 = key absent
	idle    []int
	quota   []bool
	create  [][]bool
}

func rqBools(l []bool) string { return gBools(l) }

func rqFact(n int) int {
	f := 1
	for i := 2; i <= n; i++ {
		f *= i
	}
	return f
}

// number of arrangements the unstable sort may produce
func rqTieProduct(ents []rqEnt) int {
	cnt := map[int64]int{}
	for _, e := range ents {
		cnt[e.prio]++
	}
	p := 1
	for _, c := range cnt {
		p *= rqFact(c)
		if p > 1000000 {
			return p
		}
	}
	return p
}

func rqRun(sn rqSnap, ctx context.Context) (term string, desc map[string]interface{}, nstart int, log []string) {
	var its []arvados.InstanceType
	itID := map[string]int{}
	for i := 0; i < sn.nit; i++ {
		it := test.InstanceType(i + 1)
		its = append(its, it)
		itID[it.Name] = i
	}
	pool := &rqPool{running: map[string]time.Time{}, unalloc: map[arvados.InstanceType]int{}, create: map[string][]bool{},
		idle: map[string]int{}, killable: map[string]bool{}, itID: itID, quota: append([]bool(nil), sn.quota...)}
	var unallocS, idleS, createS []string
	for i, it := range its {
		if sn.unalloc[i] >= 0 {
			pool.unalloc[it] = sn.unalloc[i]
			unallocS = append(unallocS, fmt.Sprintf("(%s, %s)", gN(int64(i)), gZ(int64(sn.unalloc[i]))))
		}
		pool.idle[it.Name] = sn.idle[i]
		idleS = append(idleS, fmt.Sprintf("(%s, %s)", gN(int64(i)), gZ(int64(sn.idle[i]))))
		pool.create[it.Name] = append([]bool(nil), sn.create[i]...)
		createS = append(createS, fmt.Sprintf("(%s, %s)", gN(int64(i)), rqBools(sn.create[i])))
	}
	q := &rqQueue{ents: map[string]container.QueueEnt{}, pool: pool, updated: time.Now()}
	var entS, runS, killS, createdS []string
	for _, e := range sn.ents {
		uuid := test.ContainerUUID(e.id)
		// the fields container.Queue selects: uuid, state, priority, runtime_constraints, scheduling_parameters, created_at
		q.ents[uuid] = container.QueueEnt{Container: arvados.Container{UUID: uuid, State: rqStates[e.st], Priority: e.prio,
			CreatedAt:          rqCreatedAt(e.created),
			RuntimeConstraints: arvados.RuntimeConstraints{VCPUs: 1 + e.it, RAM: int64(1+e.it) << 30},
		}, InstanceType: its[e.it]}
		createdS = append(createdS, fmt.Sprintf("%d:%d", e.id, e.created))
		entS = append(entS, fmt.Sprintf("E %s %s %s %s", gN(int64(e.id)), gN(int64(e.st)), gZ(e.prio), gN(int64(e.it))))
		if e.running {
			pool.running[uuid] = time.Time{}
			runS = append(runS, gN(int64(e.id)))
		}
		if e.killable {
			pool.killable[uuid] = true
			killS = append(killS, gN(int64(e.id)))
		}
	}
	sch := New(ctx, q, pool, nil, time.Minute, time.Second)
	base := runtime.NumGoroutine()
	sch.runQueue()
	rqSettle(base)
	q.mtx.Lock()
	locks := append([]string(nil), q.locks...)
	q.mtx.Unlock()
	pool.Lock()
	log = append([]string(nil), pool.log...)
	shut := append([]string(nil), pool.shut...)
	pool.Unlock()
	for _, l := range log {
		if strings.HasPrefix(l, "EStart") {
			nstart++
		}
	}
	term = fmt.Sprintf("mkrq %s %s %s (mkstub %s %s %s %s) %s %s %s",
		gList(entS), gList(runS), gList(unallocS),
		rqBools(sn.quota), gList(killS), gList(createS), gList(idleS),
		gList(log), gList(locks), gList(shut))
	desc = map[string]interface{}{"ents(uuid,state,prio,type)": entS, "created_at(uuid:minutes after t0, 0 = zero time)": createdS, "running": runS, "unalloc": unallocS, "quota": sn.quota,
		"killable": killS, "create": createS, "idle": idleS, "log": log, "locks": locks, "shutdown": shut}
	return
}

func rqCtx() context.Context {
	quiet := logrus.New()
	quiet.SetOutput(ioutil.Discard)
	return ctxlog.Context(context.Background(), quiet)
}

func rqGenSnap(r *vRand) (rqSnap, []string) {
	var tags []string
	sn := rqSnap{nit: 1 + r.Intn(3)}
	n := r.Intn(9)
	if r.Chance(1, 10) {
		n = 9 + r.Intn(8)
	}
	prioMode := r.Intn(4) // 0 distinct, 1 small range (ties), 2 two levels, 3 distinct incl. zero/negative
	perm := make([]int, n+4)
	for i := range perm {
		perm[i] = i
	}
	for i := len(perm) - 1; i > 0; i-- {
		j := r.Intn(i + 1)
		perm[i], perm[j] = perm[j], perm[i]
	}
	mk := func() {
		sn.ents = nil
		for i := 0; i < n; i++ {
			e := rqEnt{id: i + 1, it: r.Intn(sn.nit)}
			switch x := r.Intn(20); {
			case x < 6:
				e.st = 0
			case x < 15:
				e.st = 1
			case x < 17:
				e.st = 2
			case x < 18:
				e.st = 3
			case x < 19:
				e.st = 4
			default:
				e.st = 5
			}
			switch prioMode {
			case 0:
				e.prio = int64(perm[i] + 1)
			case 1:
				e.prio = int64(r.Intn(4))
			case 2:
				e.prio = int64(1 + 9*r.Intn(2))
			default:
				e.prio = int64(perm[i] - 1)
			}
			e.running = r.Chance(1, 5)
			e.killable = r.Chance(1, 6)
			sn.ents = append(sn.ents, e)
		}
	}
	mk()
	for tries := 0; rqTieProduct(sn.ents) > 150; tries++ {
		if tries > 3 {
			prioMode = 0
		}
		mk()
	}
	// created_at against priority: 0 zero times, 1 all equal, 2 the higher the priority the newer, 3 the higher
	// the priority the older, 4 unrelated
	createdMode := r.Intn(5)
	if n > 0 {
		lo, hi := sn.ents[0].prio, sn.ents[0].prio
		for _, e := range sn.ents {
			if e.prio < lo {
				lo = e.prio
			}
			if e.prio > hi {
				hi = e.prio
			}
		}
		for i := range sn.ents {
			e := &sn.ents[i]
			switch createdMode {
			case 1:
				e.created = 7
			case 2:
				e.created = 3*int(e.prio-lo) + 1 + r.Intn(3)
			case 3:
				e.created = 3*int(hi-e.prio) + 1 + r.Intn(3)
			case 4:
				e.created = 1 + r.Intn(20)
			}
		}
	}
	tags = append(tags, fmt.Sprintf("n=%d", n), fmt.Sprintf("priomode=%d", prioMode), fmt.Sprintf("createdmode=%d", createdMode))
	if rqTieProduct(sn.ents) > 1 {
		tags = append(tags, "ties")
	}
	qm := r.Intn(20)
	switch {
	case qm < 9:
		sn.quota = []bool{false}
	case qm < 16:
		sn.quota = []bool{true}
		tags = append(tags, "quota")
	default:
		for k := 0; k < 2+r.Intn(3); k++ {
			sn.quota = append(sn.quota, r.Bool())
		}
		tags = append(tags, "quota-script")
	}
	for i := 0; i < sn.nit; i++ {
		u := r.Intn(4)
		if r.Chance(1, 2) {
			u = r.Intn(2)
		}
		idle := 0
		if u > 0 {
			idle = r.Intn(u + 1)
		}
		if r.Chance(1, 10) {
			idle = r.Intn(3) // possibly more idle workers than Unallocated() reported (a race in the real pool)
		}
		if r.Chance(1, 8) {
			u = -1
		}
		sn.unalloc = append(sn.unalloc, u)
		sn.idle = append(sn.idle, idle)
		var cr []bool
		switch r.Intn(4) {
		case 0:
			cr = []bool{false}
		case 1, 2:
			cr = []bool{true}
		default:
			for k := 0; k < 2+r.Intn(2); k++ {
				cr = append(cr, r.Bool())
			}
		}
		sn.create = append(sn.create, cr)
	}
	return sn, tags
}

func TestVerifC16RQ(t *testing.T) {
	seed := vSeed()
	n := vEnvInt("VERIF_N", 600)
	only := vOnly()
	stage := os.Getenv("VERIF_STAGE")
	if stage == "" {
		stage = "runq"
	}
	cs := vNewCases(stage)
	ctx := rqCtx()
	for i := 0; i < n; i++ {
		if only >= 0 && i != only {
			continue
		}
		r := vCaseRand(seed, i)
		sn, tags := rqGenSnap(r)
		term, desc, nstart, log := rqRun(sn, ctx)
		tags = append(tags, fmt.Sprintf("starts=%d", nstart))
		for _, l := range log {
			tags = append(tags, "ev="+strings.SplitN(l, " ", 2)[0])
		}
		cs.Add(i, term, desc, len(log) >= 2, tags...)
	}
	cs.Write()
}

// Exhaustive small scope: every snapshot with one container (state x priority x type x running x
// lingering process) and with two containers (the second restricted to Queued/Locked, priority 1-2),
// against every small pool state.  VERIF_STRIDE > 1 samples every k-th snapshot.
func TestVerifC16RQExh(t *testing.T) {
	stage := os.Getenv("VERIF_STAGE")
	if stage == "" {
		stage = "rqexh"
	}
	stride := vEnvInt("VERIF_STRIDE", 1)
	only := vOnly()
	cs := vNewCases(stage)
	ctx := rqCtx()
	idx := 0
	emit := func(sn rqSnap, tag string) {
		i := idx
		idx++
		if i%stride != 0 || (only >= 0 && i != only) {
			return
		}
		term, desc, nstart, log := rqRun(sn, ctx)
		cs.Add(i, term, desc, len(log) >= 2, tag, fmt.Sprintf("starts=%d", nstart))
	}
	var firsts []rqEnt
	for st := 0; st < 3; st++ {
		for prio := int64(0); prio < 3; prio++ {
			for it := 0; it < 2; it++ {
				for fl := 0; fl < 4; fl++ {
					firsts = append(firsts, rqEnt{id: 1, st: st, prio: prio, it: it, running: fl&1 == 1, killable: fl&2 == 2})
				}
			}
		}
	}
	var seconds []rqEnt
	for st := 0; st < 2; st++ {
		for prio := int64(1); prio < 3; prio++ {
			for it := 0; it < 2; it++ {
				for k := 0; k < 2; k++ {
					seconds = append(seconds, rqEnt{id: 2, st: st, prio: prio, it: it, killable: k == 1})
				}
			}
		}
	}
	pools := func(full bool, f func(sn rqSnap)) {
		for u0 := 0; u0 < 2; u0++ {
			for u1 := 0; u1 < 2; u1++ {
				for im := 0; im < 4; im++ {
					i0, i1 := im&1, im>>1
					if !full && (i0 > u0 || i1 > u1) {
						continue
					}
					for q := 0; q < 2; q++ {
						for c := 0; c < 2; c++ {
							f(rqSnap{nit: 2, unalloc: []int{u0, u1}, idle: []int{i0, i1}, quota: []bool{q == 1},
								create: [][]bool{{c == 1}, {c == 1}}})
						}
					}
				}
			}
		}
	}
	for _, a := range firsts {
		a := a
		pools(true, func(sn rqSnap) { a := a; a.created = (idx / 16) % 2; sn.ents = []rqEnt{a}; emit(sn, "one-container") })
	}
	for _, a := range firsts {
		for _, b := range seconds {
			a, b := a, b
			pools(false, func(sn rqSnap) {
				// ages alternate: the first container is the older one in half of the snapshots
				a, b := a, b
				a.created, b.created = 1+(idx/16)%2, 2-(idx/16)%2
				sn.ents = []rqEnt{a, b}
				emit(sn, "two-containers")
			})
		}
	}
	cs.Write()
}
