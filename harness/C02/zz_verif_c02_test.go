//go:build verif

// C02 harness.  unix_volume.go is the instrumented copy (tools/instrument): every filesystem call of
// the write path is preceded by a yield point.
//   Plain   : one PUT, trace of yield points recorded (must equal the model's step list).
//   Kill k  : a child process (re-exec of this test binary) performs the PUT on the same directories
//             and SIGKILLs itself at yield point k; the parent then starts a fresh handler on those
//             directories and records GET, /index and the directory contents.
//   Cancel k: the client "disconnects" (http.CloseNotifier fires) at yield point k.
//   Plain runs are made a second time after a PRELUDE on the same router and buffer pool: uploads that do
//   not arrive completely (another block's upload breaks in mid-body; an upload of this block stops early
//   right after a GET of it, when there is a copy to GET).  They must be refused without any filesystem
//   step and must leave the pool as they found it: the PUT under test then behaves as in the plain run.
// Scenarios: body sizes 0, 1, 100000 (0, 1, 4 chunk writes); 1-2 volumes; prior copy absent / intact /
// corrupt (bit flip + shortened, right bytes + trailing bytes, proper prefix) on either volume; one
// read-only variant.
package main

import (
	"bytes"
	"crypto/md5"
	"encoding/json"
	"errors"
	"fmt"
	"io"
	"io/ioutil"
	"net/http/httptest"
	"os"
	"os/exec"
	"path/filepath"
	"runtime"
	"strconv"
	"strings"
	"sync"
	"syscall"
	"testing"
	"time"
)

type c02Scenario struct {
	Size  int      `json:"size"`
	Ro    []bool   `json:"ro"`
	Prior []string `json:"prior"` // per configured volume: absent, absentdir, intact, corrupt
	Full  []bool   `json:"full"`  // per configured volume (nil = none): a fresh <root>/full marker, IsFull() answers true
}

type c02Child struct {
	Dirs   []string `json:"dirs"`
	Ro     []bool   `json:"ro"`
	Size   int      `json:"size"`
	KillAt int      `json:"kill_at"`
}

func c02Data(size int) []byte {
	b := make([]byte, size)
	x := uint32(2463534242)
	for i := range b {
		x ^= x << 13
		x ^= x >> 17
		x ^= x << 5
		b[i] = byte(x)
	}
	return b
}

func c02Corrupt(data []byte) []byte {
	if len(data) == 0 {
		return []byte("x")
	}
	c := append([]byte(nil), data...)
	c[len(c)/2] ^= 0x20
	if len(c) > 10 {
		c = c[:len(c)-3] // also a different size
	}
	return c
}

// TestVerifC02Child is the process that gets killed.
func TestVerifC02Child(t *testing.T) {
	spec := os.Getenv("VERIF_C02_CHILD")
	if spec == "" {
		t.Skip("not a child run")
	}
	var ch c02Child
	if err := json.Unmarshal([]byte(spec), &ch); err != nil {
		t.Fatal(err)
	}
	env, err := ksNewEnv(ksOpts{ro: ch.Ro, dirs: ch.Dirs, blobTrash: true, lifetime: 24 * time.Hour})
	if err != nil {
		t.Fatal(err)
	}
	order := make([]string, len(env.perm))
	for i, p := range env.perm {
		order[i] = strconv.Itoa(p)
	}
	os.Stdout.WriteString("ORDER " + strings.Join(order, ",") + "\n")
	data := c02Data(ch.Size)
	hash := fmt.Sprintf("%x", md5.Sum(data))
	var mtx sync.Mutex
	n := 0
	verifSetHook(func(label string) {
		mtx.Lock()
		defer mtx.Unlock()
		os.Stdout.WriteString("YP " + label + "\n")
		if n == ch.KillAt {
			syscall.Kill(os.Getpid(), syscall.SIGKILL)
			select {}
		}
		n++
	})
	code := env.do("PUT", "/"+hash, bytes.NewReader(data), -1, false).Code
	os.Stdout.WriteString(fmt.Sprintf("DONE %d\n", code))
	os.Exit(0)
}

type c02CN struct {
	*httptest.ResponseRecorder
	ch chan bool
}

func (c *c02CN) CloseNotify() <-chan bool { return c.ch }

type c02Obs struct {
	vols  []string // D terms, in the given order
	get   int
	good  bool
	glen  int
	index []string
}

func c02Plant(dirs []string, sc c02Scenario, data []byte, hash string) {
	for i, d := range dirs {
		pdir := filepath.Join(d, hash[:3])
		p := filepath.Join(pdir, hash)
		if sc.Full != nil && sc.Full[i] {
			os.Symlink(fmt.Sprint(time.Now().Unix()), filepath.Join(d, "full"))
		}
		switch sc.Prior[i] {
		case "absentdir":
			os.MkdirAll(pdir, 0755)
		case "intact":
			os.MkdirAll(pdir, 0755)
			ioutil.WriteFile(p, data, 0644)
		case "corrupt":
			os.MkdirAll(pdir, 0755)
			ioutil.WriteFile(p, c02Corrupt(data), 0644)
		case "extended": // the right bytes followed by more
			os.MkdirAll(pdir, 0755)
			ioutil.WriteFile(p, append(append([]byte(nil), data...), []byte("sixteen more....")...), 0644)
		case "truncated": // a proper prefix of the right bytes (the zero-length file for a 1-byte block)
			os.MkdirAll(pdir, 0755)
			ioutil.WriteFile(p, data[:len(data)/2], 0644)
		}
	}
}

// c02Disk describes the directories (in the given order) as D terms.
func c02Disk(dirs []string, ro []bool, data []byte, hash string) ([]string, []string) {
	var out, human []string
	for i, d := range dirs {
		pdir := filepath.Join(d, hash[:3])
		dirExists := false
		blk, tmp := "None", "None"
		hb, ht := "-", ""
		if fi, err := os.Stat(pdir); err == nil && fi.IsDir() {
			dirExists = true
			files, _ := ioutil.ReadDir(pdir)
			for _, f := range files {
				switch {
				case f.Name() == hash:
					b, _ := ioutil.ReadFile(filepath.Join(pdir, f.Name()))
					if bytes.Equal(b, data) {
						blk, hb = "(Some KGood)", "good"
					} else {
						blk, hb = fmt.Sprintf("(Some (KCorrupt %d))", len(b)), fmt.Sprintf("corrupt(%d)", len(b))
					}
				case strings.HasPrefix(f.Name(), "tmp"):
					tmp, ht = fmt.Sprintf("(Some %d)", f.Size()), fmt.Sprintf(" tmp(%d)", f.Size())
				}
			}
		}
		cons := "D"
		if _, err := os.Lstat(filepath.Join(d, "full")); err == nil {
			cons, ht = "DF", ht+" [full]"
		}
		out = append(out, fmt.Sprintf("%s %s %s %s %s", cons, gBool(ro[i]), gBool(dirExists), blk, tmp))
		human = append(human, hb+ht)
	}
	return out, human
}

func c02Index(env *ksEnv) []string {
	rr := env.do("GET", "/index", nil, -1, true)
	var out []string
	for _, line := range strings.Split(rr.Body.String(), "\n") {
		f := strings.Fields(line)
		if len(f) < 1 {
			continue
		}
		parts := strings.SplitN(f[0], "+", 2)
		size := "0"
		if len(parts) == 2 {
			size = parts[1]
		}
		out = append(out, fmt.Sprintf("(%s, %s)", gStr(parts[0]), size))
	}
	return out
}

func c02Observe(cfgDirs []string, ro []bool, order []int, data []byte, hash string) (c02Obs, []string) {
	var o c02Obs
	env, err := ksNewEnv(ksOpts{ro: ro, dirs: cfgDirs, blobTrash: true, lifetime: 24 * time.Hour})
	if err != nil {
		panic(err)
	}
	// The GET is answered to a client that is slow to take the body: while the handler is inside its first
	// Write, every buffer that is in the buffer pool at that moment is overwritten (another request could
	// have taken it).  A correct handler still holds its buffer, so this changes nothing.
	pool := ksInstallPool(env.quiet, 2)
	sw := &ksSlowWriter{ResponseRecorder: httptest.NewRecorder()}
	sw.hook = func() { pool.scribble(len(data) + 200) }
	ksOneP(func() { env.serve(sw, "GET", "/"+hash, nil, -1, false) })
	rr := sw.ResponseRecorder
	o.get = rr.Code
	if rr.Code == 200 {
		o.good = bytes.Equal(rr.Body.Bytes(), data)
		o.glen = rr.Body.Len()
	}
	o.index = c02Index(env)
	dirs := make([]string, len(order))
	ros := make([]bool, len(order))
	for i, p := range order {
		dirs[i], ros[i] = cfgDirs[p], ro[p]
	}
	var human []string
	o.vols, human = c02Disk(dirs, ros, data, hash)
	return o, human
}

func c02Src(trace []string, acked bool) string {
	w, stats := 0, 0
	removed, renamed, touched, wrote := false, false, false, false
	for _, l := range trace {
		switch {
		case l == "WriteBlock:write:tmpfile":
			w++
		case l == "WriteBlock:v.os.Remove":
			removed = true
		case l == "WriteBlock:v.os.Rename":
			renamed = true
		case strings.HasPrefix(l, "Touch:"):
			touched = true
		case l == "stat:v.os.Stat":
			stats++
		}
		if strings.HasPrefix(l, "WriteBlock:") {
			wrote = true
		}
	}
	switch {
	case removed:
		return fmt.Sprintf("(FailsAfter %d)", w)
	case renamed || touched || wrote || acked || stats == 0:
		return "Complete"
	default:
		return fmt.Sprintf("(CancelledIn %d)", stats-1)
	}
}

func c02Strip(l string) string {
	if i := strings.LastIndex(l, "#"); i >= 0 {
		return l[:i]
	}
	return l
}

func TestVerifC02(t *testing.T) {
	if os.Getenv("VERIF_C02_CHILD") != "" {
		t.Skip("child run")
	}
	seed := vSeed()
	n := vEnvInt("VERIF_N", 100) // number of kill + cancel runs to sample (all plain runs are always made); 0 = all
	only := vOnly()
	stage := os.Getenv("VERIF_STAGE")
	if stage == "" {
		stage = "c02"
	}
	cs := vNewCases(stage)
	// ---- scenarios ----
	var scs []c02Scenario
	for _, size := range []int{0, 1, 100000} {
		for _, p := range []string{"absent", "absentdir", "intact", "corrupt"} {
			scs = append(scs, c02Scenario{Size: size, Ro: []bool{false}, Prior: []string{p}})
		}
		// more shapes of a corrupt prior copy (all of them KCorrupt <size> for the model)
		scs = append(scs, c02Scenario{Size: size, Ro: []bool{false}, Prior: []string{"extended"}})
		if size > 0 {
			scs = append(scs, c02Scenario{Size: size, Ro: []bool{false}, Prior: []string{"truncated"}})
			scs = append(scs, c02Scenario{Size: size, Ro: []bool{false, false}, Prior: []string{"extended", "truncated"}})
		}
		for _, p0 := range []string{"absent", "intact", "corrupt"} {
			for _, p1 := range []string{"absent", "intact", "corrupt"} {
				scs = append(scs, c02Scenario{Size: size, Ro: []bool{false, false}, Prior: []string{p0, p1}})
			}
		}
		scs = append(scs, c02Scenario{Size: size, Ro: []bool{false, true}, Prior: []string{"absent", "intact"}})
		scs = append(scs, c02Scenario{Size: size, Ro: []bool{true, false}, Prior: []string{"corrupt", "corrupt"}})
		// full volumes (the round-robin choice answers FullError: PutBlock's fallback loop over all writable
		// volumes; which of two volumes is the round-robin choice depends on the mount order of the process)
		scs = append(scs, c02Scenario{Size: size, Ro: []bool{false}, Prior: []string{"absent"}, Full: []bool{true}})
		scs = append(scs, c02Scenario{Size: size, Ro: []bool{false, false}, Prior: []string{"absent", "absent"}, Full: []bool{true, false}})
		scs = append(scs, c02Scenario{Size: size, Ro: []bool{false, false}, Prior: []string{"absent", "absentdir"}, Full: []bool{false, true}})
		scs = append(scs, c02Scenario{Size: size, Ro: []bool{false, false}, Prior: []string{"absent", "absent"}, Full: []bool{true, true}})
		scs = append(scs, c02Scenario{Size: size, Ro: []bool{false, false}, Prior: []string{"corrupt", "absent"}, Full: []bool{true, false}})
		scs = append(scs, c02Scenario{Size: size, Ro: []bool{false, false}, Prior: []string{"absent", "intact"}, Full: []bool{false, true}})
		scs = append(scs, c02Scenario{Size: size, Ro: []bool{false, true}, Prior: []string{"absent", "absent"}, Full: []bool{true, false}})
	}
	type job struct {
		idx     int
		sc      c02Scenario
		mode    string // plain, kill, cancel
		k       int
		prelude string // plain only: "", failed-upload, short-upload
	}
	newDirs := func(nv int) []string {
		var dirs []string
		for i := 0; i < nv; i++ {
			d, err := ioutil.TempDir("", "c02v")
			if err != nil {
				t.Fatal(err)
			}
			dirs = append(dirs, d)
		}
		return dirs
	}
	type result struct {
		term     string
		desc     map[string]interface{}
		tags     []string
		nontriv  bool
		npoints  int
		skipped  bool
	}
	var mtx sync.Mutex
	runInProcess := func(j job) result { // plain and cancel: one at a time (global hook, shared buffer)
		data := c02Data(j.sc.Size)
		hash := fmt.Sprintf("%x", md5.Sum(data))
		dirs := newDirs(len(j.sc.Ro))
		defer func() {
			for _, d := range dirs {
				os.RemoveAll(d)
			}
		}()
		c02Plant(dirs, j.sc, data, hash)
		env, err := ksNewEnv(ksOpts{ro: j.sc.Ro, dirs: dirs, blobTrash: true, lifetime: 24 * time.Hour})
		if err != nil {
			t.Fatal(err)
		}
		index0 := c02Index(env)
		before, hbefore := c02Disk(env.dirs, env.ro, data, hash)
		var tm sync.Mutex
		var trace []string
		cn := &c02CN{ResponseRecorder: httptest.NewRecorder(), ch: make(chan bool, 1)}
		fired := false
		// undisturbed runs: a real 2-buffer pool, and at every filesystem step of the volume work every
		// buffer that is in the pool is overwritten (another request could have taken it).  The PUT holds
		// its buffer until PutBlock has returned, so this changes nothing unless the buffer is given back
		// while the volume code still reads from it.
		var pool *ksPool
		if j.mode == "plain" {
			// (one more buffer is out for the whole run: another client's request in flight, see ksInstallPoolHeld)
			pool = ksInstallPoolHeld(env.quiet, 2, 1)
		}
		recording := true
		verifSetHook(func(label string) {
			if !recording {
				return
			}
			tm.Lock()
			k := len(trace)
			trace = append(trace, c02Strip(label))
			fire := j.mode == "cancel" && k == j.k && !fired
			if fire {
				fired = true
			}
			if pool != nil {
				pool.scribble(len(data) + 200)
			}
			tm.Unlock()
			if fire {
				cn.ch <- true
				time.Sleep(3 * time.Millisecond) // let contextForResponse's goroutine cancel the context
			}
		})
		var preludeDesc []string
		if j.prelude != "" {
			ksOneP(func() {
				send := func(what, method, path string, body io.Reader, clen int64) int {
					var rec *httptest.ResponseRecorder
					code := 0
					if ksGuard(func() { rec = env.do(method, path, body, clen, false) }) {
						code = rec.Code
					}
					preludeDesc = append(preludeDesc, fmt.Sprintf("%s -> %d", what, code))
					return code
				}
				switch j.prelude {
				case "failed-upload":
					other := []byte("c02 prelude: a block whose upload breaks in mid-body")
					oh := fmt.Sprintf("%x", md5.Sum(other))
					send("PUT of another block, connection reset after 7 of its bytes", "PUT", "/"+oh,
						&ksFailBody{data: other[:7], err: errors.New("read: connection reset by peer")}, int64(len(other)))
				case "short-upload":
					// (the GET is not part of the trace: only the uploads are judged here)
					recording = false
					send("GET of the block", "GET", "/"+hash, nil, -1)
					recording = true
					cut := len(data) / 2
					send(fmt.Sprintf("PUT of the block, body ends after %d of %d bytes", cut, len(data)), "PUT", "/"+hash,
						&ksFailBody{data: data[:cut], err: io.EOF}, int64(len(data)))
				}
			})
		}
		req := httptest.NewRequest("PUT", "/"+hash, bytes.NewReader(data))
		if pool != nil {
			ksOneP(func() { env.h.ServeHTTP(cn, req) })
		} else {
			env.h.ServeHTTP(cn, req)
		}
		// WriteBlock may still be running in the background after a cancelled request (putWithPipe
		// does not wait for it): wait until no instrumented method is active any more
		// (three consecutive idle readings: a WriteBlock goroutine that putWithPipe has just spawned
		// may not have entered the method yet)
		for w, idle := 0, 0; idle < 3; w++ {
			if w > 30000 {
				t.Fatalf("instrumented methods still running 30 s after the request returned")
			}
			runtime.Gosched()
			time.Sleep(time.Millisecond)
			if verifActive() == 0 {
				idle++
			} else {
				idle = 0
			}
		}
		verifSetHook(nil)
		tm.Lock()
		tr := append([]string(nil), trace...)
		tm.Unlock()
		if j.mode == "cancel" && !fired {
			return result{skipped: true, npoints: len(tr)}
		}
		acked := cn.Code == 200
		obs, hafter := c02Observe(dirs, j.sc.Ro, env.perm, data, hash)
		mode := "Plain"
		if j.mode == "cancel" {
			mode = fmt.Sprintf("(Cancel %d)", j.k)
		}
		term := fmt.Sprintf("{| c_hash := %s; c_L := %d; c_vols := %s; c_index0 := %s; c_mode := %s; c_src := %s;\n   c_trace := %s;\n   c_acked := Some %s; c_after := %s; c_get := %d; c_get_good := %s; c_get_len := %d; c_index := %s |}",
			gStr(hash), j.sc.Size, gList(before), gList(index0), mode, c02Src(tr, acked), gStrs(tr), gBool(acked), gList(obs.vols), obs.get, gBool(obs.good), obs.glen, gList(obs.index))
		desc := map[string]interface{}{"index": j.idx, "mode": j.mode, "k": j.k, "size": j.sc.Size, "before": hbefore, "after": hafter,
			"put_status": cn.Code, "get_after_restart": obs.get, "trace": tr, "index_after": obs.index}
		tags := []string{"mode=" + j.mode, fmt.Sprintf("size=%d", j.sc.Size), fmt.Sprintf("vols=%d", len(dirs)), fmt.Sprintf("put=%d", cn.Code), fmt.Sprintf("get=%d", obs.get)}
		if j.prelude != "" {
			desc["prelude"] = preludeDesc
			tags = append(tags, "prelude="+j.prelude)
		}
		return result{term: term, desc: desc, tags: tags, nontriv: true, npoints: len(tr)}
	}
	runKill := func(j job) result {
		data := c02Data(j.sc.Size)
		hash := fmt.Sprintf("%x", md5.Sum(data))
		dirs := newDirs(len(j.sc.Ro))
		defer func() {
			for _, d := range dirs {
				os.RemoveAll(d)
			}
		}()
		c02Plant(dirs, j.sc, data, hash)
		spec, _ := json.Marshal(c02Child{Dirs: dirs, Ro: j.sc.Ro, Size: j.sc.Size, KillAt: j.k})
		cmd := exec.Command(os.Args[0], "-test.run", "^TestVerifC02Child$")
		cmd.Env = append(os.Environ(), "VERIF_C02_CHILD="+string(spec))
		var stdout bytes.Buffer
		cmd.Stdout = &stdout
		err := cmd.Run()
		killed := false
		if ee, ok := err.(*exec.ExitError); ok {
			if ws, ok := ee.Sys().(syscall.WaitStatus); ok && ws.Signaled() && ws.Signal() == syscall.SIGKILL {
				killed = true
			}
		}
		var tr []string
		var order []int
		done := -1
		for _, line := range strings.Split(stdout.String(), "\n") {
			switch {
			case strings.HasPrefix(line, "YP "):
				tr = append(tr, c02Strip(line[3:]))
			case strings.HasPrefix(line, "ORDER "):
				for _, x := range strings.Split(line[6:], ",") {
					v, _ := strconv.Atoi(x)
					order = append(order, v)
				}
			case strings.HasPrefix(line, "DONE "):
				done, _ = strconv.Atoi(line[5:])
			}
		}
		if !killed {
			if done >= 0 {
				return result{skipped: true, npoints: len(tr)} // fewer than k+1 yield points in this process
			}
			t.Fatalf("child neither killed nor done: %v\n%s", err, stdout.String())
		}
		// "before", in the child's mount order (the planted state is known)
		mtx.Lock()
		defer mtx.Unlock() // the observation uses the in-process handler machinery (global buffer pool)
		bdirs := newDirs(len(j.sc.Ro))
		c02Plant(bdirs, j.sc, data, hash)
		odirs := make([]string, len(order))
		oro := make([]bool, len(order))
		for i, p := range order {
			odirs[i], oro[i] = bdirs[p], j.sc.Ro[p]
		}
		before, hbefore := c02Disk(odirs, oro, data, hash)
		benv, err := ksNewEnv(ksOpts{ro: j.sc.Ro, dirs: bdirs, blobTrash: true, lifetime: 24 * time.Hour})
		if err != nil {
			t.Fatal(err)
		}
		index0 := c02Index(benv)
		for _, d := range bdirs {
			os.RemoveAll(d)
		}
		obs, hafter := c02Observe(dirs, j.sc.Ro, order, data, hash)
		term := fmt.Sprintf("{| c_hash := %s; c_L := %d; c_vols := %s; c_index0 := %s; c_mode := Kill %d; c_src := Complete;\n   c_trace := %s;\n   c_acked := None; c_after := %s; c_get := %d; c_get_good := %s; c_get_len := %d; c_index := %s |}",
			gStr(hash), j.sc.Size, gList(before), gList(index0), j.k, gStrs(tr), gList(obs.vols), obs.get, gBool(obs.good), obs.glen, gList(obs.index))
		desc := map[string]interface{}{"index": j.idx, "mode": "kill", "k": j.k, "size": j.sc.Size, "before": hbefore, "after": hafter,
			"killed_at": tr[len(tr)-1], "get_after_restart": obs.get, "trace": tr, "index_after": obs.index}
		tags := []string{"mode=kill", fmt.Sprintf("size=%d", j.sc.Size), fmt.Sprintf("vols=%d", len(dirs)), "killed_at=" + tr[len(tr)-1], fmt.Sprintf("get=%d", obs.get)}
		return result{term: term, desc: desc, tags: tags, nontriv: true, npoints: len(tr)}
	}

	// ---- plain runs (give the number of yield points per scenario) ----
	idx := 0
	var jobs []job
	for _, sc := range scs {
		j := job{idx: idx, sc: sc, mode: "plain"}
		idx++
		r := runInProcess(j)
		if only < 0 || only == j.idx {
			cs.Add(j.idx, r.term, r.desc, true, r.tags...)
		}
		// the number of yield points depends on the mount order of the process (2 volumes): use a
		// static upper bound (3 per Compare, then Touch (5) or WriteBlock (9 + writes)) and let runs
		// that have fewer points report "skipped"; the job list must not depend on this run
		_ = r.npoints
		np := 3*len(sc.Ro) + 9 + (sc.Size+32767)/32768
		for k := 0; k < np; k++ {
			jobs = append(jobs, job{sc: sc, mode: "kill", k: k})
			jobs = append(jobs, job{sc: sc, mode: "cancel", k: k})
		}
	}
	// ---- the plain runs again, after a prelude of uploads that do not arrive completely ----
	for si, sc := range scs {
		if sc.Size == 0 {
			continue // an empty body cannot stop early
		}
		j := job{idx: idx, sc: sc, mode: "plain", prelude: []string{"failed-upload", "short-upload"}[si%2]}
		idx++
		if only < 0 || only == j.idx {
			r := runInProcess(j)
			cs.Add(j.idx, r.term, r.desc, true, r.tags...)
		}
	}
	for i := range jobs {
		jobs[i].idx = idx
		idx++
	}
	// ---- sample ----
	chosen := jobs
	if only >= 0 {
		// replay of one case: its index identifies the job whatever the sample size was
		chosen = nil
		for _, j := range jobs {
			if j.idx == only {
				chosen = append(chosen, j)
			}
		}
	} else if n > 0 && n < len(jobs) {
		r := vNewRand(seed*7919 + 2)
		perm := make([]int, len(jobs))
		for i := range perm {
			perm[i] = i
		}
		for i := len(perm) - 1; i > 0; i-- {
			k := r.Intn(i + 1)
			perm[i], perm[k] = perm[k], perm[i]
		}
		pick := map[int]bool{}
		for _, p := range perm[:n] {
			pick[p] = true
		}
		chosen = nil
		for i, j := range jobs {
			if pick[i] {
				chosen = append(chosen, j)
			}
		}
	}
	// kill runs in parallel (child processes), cancel runs sequentially
	results := make([]result, len(chosen))
	var wg sync.WaitGroup
	sem := make(chan struct{}, 6)
	for i, j := range chosen {
		if only >= 0 && only != j.idx {
			results[i].skipped = true
			continue
		}
		if j.mode != "kill" {
			continue
		}
		wg.Add(1)
		go func(i int, j job) {
			defer wg.Done()
			sem <- struct{}{}
			defer func() { <-sem }()
			results[i] = runKill(j)
		}(i, j)
	}
	wg.Wait()
	for i, j := range chosen {
		if only >= 0 && only != j.idx {
			continue
		}
		if j.mode == "cancel" {
			results[i] = runInProcess(j)
		}
	}
	for i, j := range chosen {
		r := results[i]
		if r.skipped {
			cs.Tag("skipped(no such yield point)")
			continue
		}
		cs.Add(j.idx, r.term, r.desc, r.nontriv, r.tags...)
	}
	cs.Write()
}
