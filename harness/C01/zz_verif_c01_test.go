//go:build verif

// C01 harness: plants copies of blocks on 1-3 Directory volumes (every RO/RW mix) under a corruption
// pattern per copy, sends GET/HEAD/PUT through the real router, and records status, body identity,
// Content-Length and the directory listing after every request.  Block bytes never reach Coq: a
// content is {cid; length} plus the MD5 that Go computed for it.
package main

import (
	"bytes"
	"crypto/md5"
	"crypto/sha256"
	"encoding/hex"
	"errors"
	"fmt"
	"io"
	"io/ioutil"
	"net/http/httptest"
	"os"
	"path/filepath"
	"runtime"
	"strconv"
	"strings"
	"sync"
	"sync/atomic"
	"testing"
	"time"

	"github.com/sirupsen/logrus"
)

type c01Content struct {
	cid  int
	size int64
	md5  string
	data []byte // nil for sparse all-zero contents
}

func (c *c01Content) g() string { return fmt.Sprintf("(C %d %d)", c.cid, c.size) }

type c01Table struct {
	byKey map[string]*c01Content
	list  []*c01Content
	stat  map[string]*c01Content // cache for big files: "dev:ino:size:mtime" -> content
}

func newC01Table() *c01Table {
	return &c01Table{byKey: map[string]*c01Content{}, stat: map[string]*c01Content{}}
}

func (t *c01Table) add(key string, size int64, sum string, data []byte) *c01Content {
	if c, ok := t.byKey[key]; ok {
		return c
	}
	c := &c01Content{cid: len(t.list) + 1, size: size, md5: sum, data: data}
	t.byKey[key] = c
	t.list = append(t.list, c)
	return c
}

func (t *c01Table) bytes(b []byte) *c01Content {
	if len(b) > 1<<20 {
		s := sha256.Sum256(b)
		return t.add("big:"+hex.EncodeToString(s[:])+":"+strconv.Itoa(len(b)), int64(len(b)), fmt.Sprintf("%x", md5.Sum(b)), nil)
	}
	return t.add("raw:"+string(b), int64(len(b)), fmt.Sprintf("%x", md5.Sum(b)), append([]byte(nil), b...))
}

// file returns the content of a regular file (streamed; big files are cached by inode+size+mtime).
func (t *c01Table) file(p string, fi os.FileInfo) *c01Content {
	if fi.Size() > BlockSize {
		// never read by keepstore either (stat size check); identity = its size
		return t.add(fmt.Sprintf("oversize:%d", fi.Size()), fi.Size(), "oversize", nil)
	}
	if fi.Size() <= 1<<20 {
		b, err := ioutil.ReadFile(p)
		if err != nil {
			panic(err)
		}
		return t.bytes(b)
	}
	key := fmt.Sprintf("%s:%d:%d", p, fi.Size(), fi.ModTime().UnixNano())
	if c, ok := t.stat[key]; ok {
		return c
	}
	f, err := os.Open(p)
	if err != nil {
		panic(err)
	}
	defer f.Close()
	h5, h256 := md5.New(), sha256.New()
	n, err := io.Copy(io.MultiWriter(h5, h256), f)
	if err != nil {
		panic(err)
	}
	c := t.add("big:"+hex.EncodeToString(h256.Sum(nil))+":"+strconv.FormatInt(n, 10), n, hex.EncodeToString(h5.Sum(nil)), nil)
	t.stat[key] = c
	return c
}

type zeroReader struct{}

func (zeroReader) Read(p []byte) (int, error) {
	for i := range p {
		p[i] = 0
	}
	return len(p), nil
}

// c01CN: a response writer whose client can go away (http.CloseNotifier; handlePUT derives its context
// from it).
type c01CN struct {
	*httptest.ResponseRecorder
	ch chan bool
}

func (c *c01CN) CloseNotify() <-chan bool { return c.ch }

// hangUp delivers the disconnect to contextForResponse's goroutine and lets it cancel the request's
// context before the caller goes on (the callers run under GOMAXPROCS(1): yielding the processor runs
// that goroutine).  If nobody listens any more (the handler has returned) nothing happens.
func (c *c01CN) hangUp() {
	select {
	case c.ch <- true:
	case <-time.After(2 * time.Second):
		return
	}
	for i := 0; i < 50; i++ {
		runtime.Gosched()
	}
	time.Sleep(2 * time.Millisecond)
}

func c01Strip(l string) string {
	if i := strings.LastIndex(l, "#"); i >= 0 {
		return l[:i]
	}
	return l
}

// c01LogHook: the buffer pool says "reached max buffers (n), waiting" on the goroutine that is about to
// wait for a buffer; fn runs there.
type c01LogHook struct{ fn func(msg string) }

func (h *c01LogHook) Levels() []logrus.Level { return logrus.AllLevels }
func (h *c01LogHook) Fire(e *logrus.Entry) error {
	if f := h.fn; f != nil {
		f(e.Message)
	}
	return nil
}

var c01PoolSlow int32 // a pool whose accounting did not settle was seen in this process

// c01Trigger: fn runs once, at the first yield point of the volume code whose label is in labels.
type c01Trigger struct {
	labels map[string]bool
	fn     func()
	fired  bool
}

var c01CollA, _ = hex.DecodeString("d131dd02c5e6eec4693d9a0698aff95c2fcab58712467eab4004583eb8fb7f8955ad340609f4b30283e488832571415a085125e8f7cdc99fd91dbdf280373c5bd8823e3156348f5bae6dacd436c919c6dd53e2b487da03fd02396306d248cda0e99f33420f577ee8ce54b67080a80d1ec69821bcb6a8839396f9652b6ff72a70")
var c01CollB, _ = hex.DecodeString("d131dd02c5e6eec4693d9a0698aff95c2fcab50712467eab4004583eb8fb7f8955ad340609f4b30283e4888325f1415a085125e8f7cdc99fd91dbd7280373c5bd8823e3156348f5bae6dacd436c919c6dd53e23487da03fd02396306d248cda0e99f33420f577ee8ce54b67080280d1ec69821bcb6a8839396f965ab6ff72a70")

type c01Block struct {
	data []byte // nil when big
	big  bool   // exactly BlockSize zero bytes
	hash string
	coll bool // data is one half of a known MD5 collision pair
}

func c01RandBytes(r *vRand, n int) []byte {
	b := make([]byte, n)
	for i := range b {
		b[i] = byte(r.Intn(256))
	}
	return b
}

var c01BigSHA string

var c01Sizes = []int{0, 1, 2, 63, 64, 65, 100, 4096}

func c01WriteSparse(p string, size int64) {
	f, err := os.Create(p)
	if err != nil {
		panic(err)
	}
	if err := f.Truncate(size); err != nil {
		panic(err)
	}
	f.Close()
}

func TestVerifC01(t *testing.T) {
	seed := vSeed()
	n := vEnvInt("VERIF_N", 100)
	only := vOnly()
	stage := os.Getenv("VERIF_STAGE")
	if stage == "" {
		stage = "c01"
	}
	thorough := os.Getenv("VERIF_TIER") == "thorough"
	exhaustive := os.Getenv("VERIF_C01_MODE") == "exhaustive"
	cs := vNewCases(stage)
	if exhaustive {
		c01Exhaustive(t, cs, n, only)
		cs.Write()
		return
	}
	var bigMD5 string
	for i := 0; i < n; i++ {
		if only >= 0 && i != only {
			continue
		}
		r := vCaseRand(seed, i)
		caseStart := time.Now()
		nvol := 1 + r.Intn(3)
		ro := make([]bool, nvol)
		full := make([]bool, nvol)
		for k := range ro {
			ro[k] = r.Chance(1, 3)
			full[k] = r.Chance(1, 7)
		}
		// blocks of the case
		tab := newC01Table()
		var blocks []*c01Block
		collMode := r.Chance(1, 10)
		bigMode := r.Chance(1, 300) || (thorough && r.Chance(1, 60))
		nblk := 1
		if r.Chance(1, 3) {
			nblk = 2
		}
		for len(blocks) < nblk {
			b := &c01Block{}
			switch {
			case collMode && len(blocks) == 0:
				b.data, b.coll = c01CollA, true
			case bigMode && len(blocks) == 0:
				b.big = true
			default:
				sz := c01Sizes[r.Intn(len(c01Sizes))]
				if r.Chance(1, 5) {
					sz = r.Intn(300)
				} else if r.Chance(1, 6) {
					sz = 40000 + r.Intn(60000) // more than one 32 KiB chunk of the volume's copy loop
				}
				b.data = c01RandBytes(r, sz)
			}
			if b.big {
				if bigMD5 == "" {
					h := md5.New()
					io.CopyN(h, zeroReader{}, BlockSize)
					bigMD5 = hex.EncodeToString(h.Sum(nil))
				}
				b.hash = bigMD5
			} else {
				b.hash = fmt.Sprintf("%x", md5.Sum(b.data))
			}
			dup := false
			for _, o := range blocks {
				if o.hash[:3] == b.hash[:3] {
					dup = true
				}
			}
			if !dup {
				blocks = append(blocks, b)
			}
		}
		tEnv := time.Now()
		// (second random stream: the overlap machinery; the sequential part of a case does not depend on it)
		rv := vNewRand(seed*1000003 + uint64(i)*7919 + 99991)
		overlap := !bigMode && rv.Chance(2, 5)
		// a lone writable volume is a Serialize volume in half of the overlap cases: one request at a time
		// inside the volume, the others wait in UnixVolume.lock -- where their client may hang up
		serialize := overlap && nvol == 1 && !ro[0] && rv.Bool()
		env, err := ksNewEnv(ksOpts{ro: ro, blobTrash: true, lifetime: 24 * time.Hour, serialize: serialize})
		if err != nil {
			t.Fatal(err)
		}
		dEnv := time.Since(tEnv)
		// ---- plant (by configuration index) ----
		var tags []string
		interesting := false
		badpfx := make([][]string, nvol)
		planted := make([]map[string]string, nvol) // bad-prefix file names, to discount in "extra"
		for k := 0; k < nvol; k++ {
			dir := env.cfgDirs[k]
			planted[k] = map[string]string{}
			if full[k] {
				os.Symlink(fmt.Sprint(time.Now().Unix()), filepath.Join(dir, "full"))
			}
			for bi, b := range blocks {
				pdir := filepath.Join(dir, b.hash[:3])
				p := filepath.Join(pdir, b.hash)
				pat := c01PickPattern(r, b, len(blocks) > 1)
				tags = append(tags, "copy="+pat)
				if pat != "absent" && pat != "absentdir" && pat != "intact" {
					interesting = true
				}
				if pat == "absent" {
					continue
				}
				if pat == "badpfx" {
					ioutil.WriteFile(pdir, []byte("not a directory"), 0644)
					badpfx[k] = append(badpfx[k], b.hash[:3])
					continue
				}
				os.MkdirAll(pdir, 0755)
				switch pat {
				case "absentdir":
				case "intact":
					if b.big {
						c01WriteSparse(p, BlockSize)
					} else {
						ioutil.WriteFile(p, b.data, 0644)
					}
				case "bitflip":
					if b.big {
						c01WriteSparse(p, BlockSize)
						f, _ := os.OpenFile(p, os.O_WRONLY, 0)
						f.WriteAt([]byte{1}, int64(r.Intn(BlockSize)))
						f.Close()
					} else {
						d := append([]byte(nil), b.data...)
						pos := r.Intn(len(d))
						switch r.Intn(4) {
						case 0:
							pos = 0
						case 1:
							pos = len(d) - 1
						}
						d[pos] ^= 1 << uint(r.Intn(8))
						ioutil.WriteFile(p, d, 0644)
					}
				case "truncate":
					if b.big {
						c01WriteSparse(p, BlockSize-1-int64(r.Intn(3)))
					} else {
						cut := r.Intn(len(b.data))
						if r.Chance(1, 3) {
							cut = len(b.data) - 1
						}
						ioutil.WriteFile(p, b.data[:cut], 0644)
					}
				case "empty":
					ioutil.WriteFile(p, nil, 0644)
				case "append":
					if b.big {
						c01WriteSparse(p, BlockSize+1+int64(r.Intn(3)))
					} else {
						ioutil.WriteFile(p, append(append([]byte(nil), b.data...), c01RandBytes(r, 1+r.Intn(70))...), 0644)
					}
				case "other":
					var d []byte
					if len(blocks) > 1 && !blocks[1-bi].big && r.Bool() {
						d = blocks[1-bi].data
					} else {
						d = c01RandBytes(r, 1+r.Intn(100))
					}
					ioutil.WriteFile(p, d, 0644)
				case "dir":
					os.MkdirAll(p, 0755)
				case "oversize":
					c01WriteSparse(p, BlockSize+1+int64(r.Intn(1000)))
				case "collision":
					ioutil.WriteFile(p, c01CollB, 0644)
				}
			}
		}
		names := make([]string, len(blocks))
		for bi, b := range blocks {
			names[bi] = b.hash
		}
		listing := func() ([][]string, int) {
			out := make([][]string, 0, nvol)
			extra := 0
			for mi, dir := range env.dirs {
				k := env.perm[mi]
				var row []string
				expected := map[string]bool{"full": true}
				for _, pf := range badpfx[k] {
					expected[pf] = true
				}
				for _, nm := range names {
					p := filepath.Join(dir, nm[:3], nm)
					expected[nm[:3]] = true
					expected[nm[:3]+"/"+nm] = true
					fi, err := os.Lstat(p)
					switch {
					case err != nil:
						row = append(row, fmt.Sprintf("(%s, Absent)", gStr(nm)))
					case fi.IsDir():
						row = append(row, fmt.Sprintf("(%s, Unreadable)", gStr(nm)))
					default:
						row = append(row, fmt.Sprintf("(%s, File %s)", gStr(nm), tab.file(p, fi).g()))
					}
				}
				filepath.Walk(dir, func(p string, fi os.FileInfo, err error) error {
					rel := strings.TrimPrefix(strings.TrimPrefix(p, dir), "/")
					if rel != "" && !expected[rel] {
						extra++
					}
					if rel != "" && fi != nil && fi.IsDir() && expected[rel] && strings.Contains(rel, "/") {
						return filepath.SkipDir // a directory planted at a block path
					}
					return nil
				})
				out = append(out, row)
			}
			return out, extra
		}
		initial, _ := listing()
		// ---- requests ----
		var ops, obs []string
		var descs []string
		nops := 1 + r.Intn(5)
		queue := []string{}
		// Overlapping requests (drawn from a second random stream, so that the sequential part of a case
		// does not depend on it): a real pool of 2-3 buffers replaces the single shared slice, and some
		// requests are stalled -- a GET/HEAD inside the first Write of its response, a PUT in the middle
		// of its body -- while 1-2 other complete requests run on the same router and every buffer that
		// is in the pool at that moment is overwritten (ksPool.scribble).  The stalled GET has done its
		// volume work when it starts to write, the stalled PUT has not started it, so the case is still a
		// request SEQUENCE for the model: [GET; nested...] resp. [nested...; PUT].
		var pool *ksPool
		var poolHook *c01LogHook
		poolCount, poolHeld := 0, 0
		var trig *c01Trigger
		insideAbandon := false
		var pendingObs []int
		var preListing [][]string
		preExtra := 0
		activeBase := 0
		scribbleN := 256
		if overlap {
			// in 2 of 3 overlap cases 1-2 more buffers are out for the whole case (other clients' requests
			// that stay in flight): see ksInstallPoolHeld
			heldN := 0
			if rv.Chance(2, 3) {
				heldN = 1 + rv.Intn(2)
			}
			plog := logrus.New()
			plog.SetOutput(ioutil.Discard)
			poolHook = &c01LogHook{}
			plog.AddHook(poolHook)
			poolCount = 2 + rv.Intn(2)
			pool = ksInstallPoolHeld(plog, poolCount, heldN)
			poolHeld = heldN
			tags = append(tags, fmt.Sprintf("pool-held-elsewhere=%d", heldN))
			// also at every filesystem step inside the volume work (when unix_volume.go is the
			// instrumented copy): whatever is in the pool then may be overwritten by somebody else
			var smu sync.Mutex
			verifSetHook(func(label string) {
				smu.Lock()
				pool.scribble(scribbleN)
				tg := trig
				fire := tg != nil && !tg.fired && tg.labels[c01Strip(label)]
				if fire {
					tg.fired = true
				}
				smu.Unlock()
				if fire {
					tg.fn() // on the goroutine of the request that reached this yield point, which waits here
				}
			})
			if serialize {
				tags = append(tags, "serialize-volume")
			}
			for _, b := range blocks {
				if len(b.data)+200 > scribbleN {
					scribbleN = len(b.data) + 200
				}
			}
			tags = append(tags, "overlap-mode")
		}
		// perform sends one request and appends it (and, through `nested`, the requests that ran while it
		// was stalled) to ops/obs in the order in which they took effect.
		hung := false // a request did not return: the case ends there
		// what is stored under a block's name on the (first) volume right now: "" = no such file
		fileNow := func(b *c01Block) bool {
			fi, err := os.Lstat(filepath.Join(env.dirs[0], b.hash[:3], b.hash))
			return err == nil && fi.Mode().IsRegular() && fi.Size() <= BlockSize // Compare reads it (under the volume lock)
		}
		var perform func(rr *vRand, kind string, b *c01Block, bidx int, nested func()) int
		perform = func(rr *vRand, kind string, b *c01Block, bidx int, nested func()) int {
			var code int
			if (kind == "PUTSHORT" || kind == "PUTFAIL") && (b.big || len(b.data) == 0) {
				kind = "PUT" // nothing to cut
			}
			if (kind == "PUTABANDON" || kind == "PUTLOCKED" || kind == "PUTHANGUP" || kind == "PUTNOBUF") && (b.big || pool == nil) {
				kind = "PUT"
			}
			var gop, gbody, gcl string
			gbody, gcl = "None", "None"
			slot := -1
			cancelled := false
			shortNote := ""
			var slotAfter [][]string
			slotExtra := 0
			switch kind {
			case "GET", "HEAD":
				var rr2 *httptest.ResponseRecorder
				if nested != nil {
					sw := &ksSlowWriter{ResponseRecorder: httptest.NewRecorder()}
					sw.hook = func() {
						slot = len(ops)
						slotAfter, slotExtra = listing()
						ops, obs, descs = append(ops, ""), append(obs, ""), append(descs, "")
						nested()
					}
					if !ksGuard(func() { env.serve(sw, kind, "/"+b.hash, nil, -1, false) }) {
						hung = true
					}
					rr2 = sw.ResponseRecorder
					tags = append(tags, "stalled="+kind)
				} else {
					if !ksGuard(func() { rr2 = env.do(kind, "/"+b.hash, nil, -1, false) }) {
						hung = true
						rr2 = httptest.NewRecorder()
					}
				}
				code = rr2.Code
				if hung {
					code = 0 // the handler did not return (whatever it may have written before)
				}
				if code == 200 {
					gbody = "(Some " + tab.bytes(rr2.Body.Bytes()).g() + ")"
				}
				if v, err := strconv.ParseInt(rr2.Header().Get("Content-Length"), 10, 64); err == nil && v >= 0 {
					gcl = fmt.Sprintf("(Some %d)", v)
				}
				if kind == "GET" {
					gop = "Get " + gStr(b.hash)
				} else {
					gop = "Head " + gStr(b.hash)
				}
			default:
				var body io.Reader
				var clen int64 = -1
				var c *c01Content
				var d []byte
				short := false
				var taken [][]byte
				var cn *c01CN // a client that can go away
				switch kind {
				case "PUTNOBUF":
					// every buffer is out (requests of other clients that are stalled); this PUT has to wait for one
					// and its client goes away while it waits (at the moment the pool reports that it must wait).
					// Then the other requests finish.  Nothing of the pool may be lost by that.
					d = b.data
					if d == nil {
						d = []byte{}
					}
					body, c = bytes.NewReader(d), tab.bytes(d)
					cn = &c01CN{ResponseRecorder: httptest.NewRecorder(), ch: make(chan bool)}
					for pool.p.Len() < pool.p.Cap() {
						taken = append(taken, pool.p.Get(BlockSize))
					}
					fired := false
					poolHook.fn = func(msg string) {
						if !fired && strings.HasPrefix(msg, "reached max buffers") {
							fired = true
							cn.hangUp()
						}
					}
				case "PUTABANDON", "PUTLOCKED", "PUTHANGUP":
					// PUTABANDON: while this PUT is inside WriteBlock (temp file created, copy under way) a complete
					//   PUT of the SAME block runs and is answered, then this request's client goes away.
					// PUTLOCKED (Serialize volume): while this PUT is inside the volume (holding the Serialize lock) a
					//   PUTHANGUP request runs: a PUT whose client goes away at the moment it starts to wait for
					//   that lock.  Both stay on their goroutines; nothing is timed.
					d = b.data
					if d == nil {
						d = []byte{}
					}
					body, c = bytes.NewReader(d), tab.bytes(d)
					cn = &c01CN{ResponseRecorder: httptest.NewRecorder(), ch: make(chan bool)}
					if kind != "PUTHANGUP" {
						preListing, preExtra = listing()
						activeBase = verifActive()
					}
					switch kind {
					case "PUTABANDON":
						trig = &c01Trigger{labels: map[string]bool{"WriteBlock:write:tmpfile": true, "WriteBlock:tmpfile.Close": true}, fn: func() {
							insideAbandon = true
							perform(rv, "PUT", b, bidx, nil)
							insideAbandon = false
							tags = append(tags, "nested=PUT-same-block")
							cn.hangUp()
						}}
					case "PUTLOCKED":
						trig = &c01Trigger{labels: map[string]bool{"getFunc:v.os.Open": true, "Touch:v.os.OpenFile": true, "WriteBlock:write:tmpfile": true, "WriteBlock:tmpfile.Close": true}, fn: func() {
							// the other request must meet the lock in Compare (a file under its name exists): a PUT
							// that hangs up while waiting in WriteBlock leaves its temp file behind (the code returns
							// without removing it), which is not this property's business
							var cands []int
							for j, ob := range blocks {
								if !ob.big && fileNow(ob) {
									cands = append(cands, j)
								}
							}
							if len(cands) == 0 || hung {
								return
							}
							j := cands[rv.Intn(len(cands))]
							perform(rv, "PUTHANGUP", blocks[j], j, nil)
							tags = append(tags, "nested=PUTHANGUP")
						}}
					case "PUTHANGUP":
						fired := false
						verifSetAuxHook(func(label string) {
							if !fired && strings.Contains(label, "v.lock") {
								fired = true
								cn.hangUp()
							}
						})
					}
				case "PUT":
					if b.big {
						body, clen = io.LimitReader(zeroReader{}, BlockSize), BlockSize
						// same key as the listing will compute for the file on disk
						if c01BigSHA == "" {
							s := sha256.New()
							io.CopyN(s, zeroReader{}, BlockSize)
							c01BigSHA = hex.EncodeToString(s.Sum(nil))
						}
						c = tab.add("big:"+c01BigSHA+":"+strconv.Itoa(BlockSize), BlockSize, b.hash, nil)
					} else {
						d = b.data
						body, c = bytes.NewReader(b.data), tab.bytes(b.data)
					}
				case "PUTCOLL":
					d = c01CollB
					body, c = bytes.NewReader(c01CollB), tab.bytes(c01CollB)
				case "PUTWRONG":
					switch {
					case len(blocks) > 1 && !blocks[1-bidx].big && rr.Bool():
						d = blocks[1-bidx].data
					case !b.big && len(b.data) > 0 && rr.Bool():
						d = append([]byte(nil), b.data...)
						d[rr.Intn(len(d))] ^= 1 << uint(rr.Intn(8))
					default:
						d = c01RandBytes(rr, rr.Intn(80))
						if !b.big && bytes.Equal(d, b.data) {
							d = append(d, 'x')
						}
					}
					if d == nil {
						d = []byte{}
					}
					body, c = bytes.NewReader(d), tab.bytes(d)
				case "PUTLONG":
					sz := int64(BlockSize + 1 + rr.Intn(5))
					body, clen = io.LimitReader(zeroReader{}, sz), sz
					c = tab.add(fmt.Sprintf("oversize:%d", sz), sz, "oversize", nil)
				case "PUTSHORT", "PUTFAIL":
					// an upload that does not arrive completely: Content-Length announces the whole block,
					// the body ends (PUTSHORT: EOF, the client closed its side) or breaks (PUTFAIL: a read
					// error) after a proper prefix -- nothing, one byte, all but one, anything between.
					// Rarely the whole block arrives but more was announced.
					cut := rr.Intn(len(b.data))
					switch rr.Intn(5) {
					case 0:
						cut = 0
					case 1:
						cut = len(b.data) - 1
					case 2:
						if len(b.data) > 1 {
							cut = 1
						}
					}
					clen = int64(len(b.data))
					if kind == "PUTSHORT" && rr.Chance(1, 6) {
						cut = len(b.data)
						clen += int64(1 + rr.Intn(50))
					}
					recv := b.data[:cut]
					fb := &ksFailBody{data: recv, err: io.EOF}
					if kind == "PUTFAIL" {
						fb.err = errors.New("read tcp 10.0.0.1:25107->10.0.0.2:40000: read: connection reset by peer")
					}
					if nested != nil {
						fb.hook = nested
						tags = append(tags, "stalled="+kind)
					}
					body, c = fb, tab.bytes(recv)
					short = true
					shortNote = fmt.Sprintf("Content-Length %d, body %s after %d bytes", clen, map[bool]string{true: "ends", false: "breaks"}[kind == "PUTSHORT"], cut)
					tags = append(tags, fmt.Sprintf("short-upload=%s", map[bool]string{true: "nothing", false: "prefix"}[cut == 0]))
				}
				if nested != nil && d != nil && len(d) > 0 {
					body, clen = &ksSlowBody{data: d, cut: rv.Intn(len(d) + 1), hook: nested}, int64(len(d))
					tags = append(tags, "stalled=PUT")
				}
				var rr2 *httptest.ResponseRecorder
				if cn != nil {
					returned := ksGuard(func() { env.serve(cn, "PUT", "/"+b.hash, body, clen, false) })
					verifSetAuxHook(nil)
					if kind == "PUTNOBUF" {
						poolHook.fn = nil
						for _, tb := range taken {
							pool.p.Put(tb)
						}
						// the getter this request left behind now obtains a buffer and must give it back: wait until
						// the pool counts only the buffers held for the whole case (first time in a process: up to
						// 20 s; once a pool did not settle: 100 ms, the run has failed by then)
						limit := 20 * time.Second
						if atomic.LoadInt32(&c01PoolSlow) > 0 {
							limit = 100 * time.Millisecond
						}
						t0 := time.Now()
						for pool.p.Len() != poolHeld && time.Since(t0) < limit {
							runtime.Gosched()
							time.Sleep(100 * time.Microsecond)
						}
						if pool.p.Len() != poolHeld {
							atomic.AddInt32(&c01PoolSlow, 1)
							tags = append(tags, "pool-count-did-not-settle")
						}
					}
					if kind != "PUTHANGUP" {
						trig = nil
					}
					// an abandoned WriteBlock may still be running: wait until no volume method is active
					// (requests of earlier cases that never returned may sit inside a volume method for good)
					for w, idle := 0, 0; kind == "PUTABANDON" && idle < 3 && w < 20000; w++ {
						runtime.Gosched()
						time.Sleep(200 * time.Microsecond)
						if verifActive() <= activeBase {
							idle++
						} else {
							idle = 0
						}
					}
					if !returned {
						hung = true
						code = 0
					} else {
						code = cn.Code
					}
					if code/100 != 2 && !hung {
						cancelled = true
					}
				} else if !ksGuard(func() { rr2 = env.do("PUT", "/"+b.hash, body, clen, false) }) {
					hung = true
					code = 0
				} else {
					code = rr2.Code
				}
				if cancelled {
					gop = fmt.Sprintf("PutCancel %s %s", gStr(b.hash), c.g())
				} else if short {
					gop = fmt.Sprintf("PutShort %s %s %d", gStr(b.hash), c.g(), clen)
				} else {
					gop = "Put " + gStr(b.hash) + " " + c.g()
				}
			}
			var rows []string
			extra := slotExtra
			after := slotAfter
			if slot < 0 {
				after, extra = listing()
			}
			if kind == "PUTHANGUP" && preListing != nil {
				// it ran while the request holding the lock had its temp file in the directory, and it changes
				// nothing itself: what the directory held before that request started
				after, extra = preListing, preExtra
			}
			rows = make([]string, len(after))
			for k, row := range after {
				rows[k] = gList(row)
			}
			o := fmt.Sprintf("O %d %s %s %s %d", code, gbody, gcl, gList(rows), extra)
			if insideAbandon && kind == "PUT" {
				// this PUT ran while another PUT of the block was in the middle of WriteBlock (its temp file
				// is in the directory): the directory is looked at when that one is over
				o = fmt.Sprintf("O %d %s %s @@LISTING@@", code, gbody, gcl)
				pendingObs = append(pendingObs, len(obs))
			}
			if kind == "PUTABANDON" {
				for _, k := range pendingObs {
					obs[k] = strings.Replace(obs[k], "@@LISTING@@", fmt.Sprintf("%s %d", gList(rows), extra), 1)
				}
				pendingObs = nil
			}
			dsc := fmt.Sprintf("%s %s -> %d", kind, b.hash[:6], code)
			if shortNote != "" {
				dsc = fmt.Sprintf("%s %s (%s) -> %d", kind, b.hash[:6], shortNote, code)
			}
			if cancelled {
				dsc += " (its client went away: " + map[string]string{"PUTNOBUF": "while waiting for a buffer, all of them being out", "PUTABANDON": "during the copy in WriteBlock, after the preceding PUT was answered", "PUTLOCKED": "-", "PUTHANGUP": "while waiting for the volume's Serialize lock, held by the following request"}[kind] + ")"
			}
			if hung && code == 0 {
				dsc = fmt.Sprintf("%s %s -> the handler did not return", kind, b.hash[:6])
				tags = append(tags, "handler-did-not-return")
			}
			if slot < 0 {
				ops, obs, descs = append(ops, gop), append(obs, o), append(descs, dsc)
			} else {
				ops[slot], obs[slot], descs[slot] = gop, o, dsc+" (stalled in its first Write while the following ran)"
			}
			tags = append(tags, "op="+kind, fmt.Sprintf("%s=%dxx", kind, code/100))
			if code/100 != 2 && (kind == "PUT" || kind == "GET") {
				interesting = true
			}
			return code
		}
		for !hung && len(ops) < nops+6 && (len(ops) < nops || len(queue) > 0) {
			var kind string
			b := blocks[r.Intn(len(blocks))]
			if len(queue) > 0 {
				parts := strings.SplitN(queue[0], ":", 2)
				kind = parts[0]
				bi, _ := strconv.Atoi(parts[1])
				b = blocks[bi]
				queue = queue[1:]
			} else {
				switch x := r.Intn(100); {
				case x < 30:
					kind = "GET"
				case x < 40:
					kind = "HEAD"
				case x < 74:
					kind = "PUT"
				case x < 86:
					kind = "PUTWRONG"
				case x < 92:
					kind = "PUTSHORT"
				case x < 98:
					kind = "PUTFAIL"
				default:
					kind = "PUTLONG"
				}
				if (kind == "PUTSHORT" || kind == "PUTFAIL") && r.Chance(2, 3) {
					// first a request that leaves this very block in the buffer the pool hands out next
					for j := range blocks {
						if blocks[j] == b {
							queue = append(queue, fmt.Sprintf("%s:%d", kind, j))
						}
					}
					kind = []string{"PUT", "GET"}[r.Intn(2)]
				}
				if b.coll && kind == "PUTWRONG" && r.Bool() {
					kind = "PUTCOLL"
				}
			}
			bidx := 0
			for j := range blocks {
				if blocks[j] == b {
					bidx = j
				}
			}
			var code int
			nwr := 0
			for _, x := range ro {
				if !x {
					nwr++
				}
			}
			// (PUTABANDON: two writes of one block at the same time are a request sequence for the model only
			// when both go to the same volume)
			if overlap && len(queue) == 0 && kind != "PUTNOBUF" && rv.Chance(1, 8) {
				// as many as the pool has buffers for this case's requests, then a GET
				kind = "PUTNOBUF"
				for k := 1; k < poolCount; k++ {
					queue = append(queue, fmt.Sprintf("PUTNOBUF:%d", bidx))
				}
				queue = append(queue, fmt.Sprintf("GET:%d", bidx))
			}
			if kind == "PUTNOBUF" {
				ksOneP(func() { code = perform(r, kind, b, bidx, nil) })
			} else if overlap && len(queue) == 0 && (serialize || nwr == 1) && rv.Chance(1, 3) {
				kind = "PUTABANDON"
				if serialize {
					kind = "PUTLOCKED"
				} else {
					// the longest block of the case: a write of several chunks can be abandoned half-way
					for j := range blocks {
						if !blocks[j].big && !b.big && len(blocks[j].data) > len(b.data) {
							b, bidx = blocks[j], j
						}
					}
				}
				ksOneP(func() { code = perform(r, kind, b, bidx, nil) })
			} else if overlap && rv.Chance(3, 4) {
				nested := func() {
					for j, k := 0, 1+rv.Intn(2); j < k; j++ {
						nbi := rv.Intn(len(blocks))
						if len(blocks) > 1 && rv.Chance(2, 3) {
							nbi = 1 - bidx
						}
						nkind := []string{"GET", "GET", "PUT", "PUT", "PUTWRONG", "HEAD", "PUTSHORT", "PUTFAIL"}[rv.Intn(8)]
						if hung {
							break
						}
						perform(rv, nkind, blocks[nbi], nbi, nil)
						tags = append(tags, "nested="+nkind)
					}
					tags = append(tags, fmt.Sprintf("pool-buffers-overwritten=%d", pool.scribble(scribbleN)))
				}
				ksOneP(func() { code = perform(r, kind, b, bidx, nested) })
			} else if overlap {
				ksOneP(func() { code = perform(r, kind, b, bidx, nil) })
			} else {
				code = perform(r, kind, b, bidx, nil)
			}
			if code == 200 && strings.HasPrefix(kind, "PUT") && len(queue) == 0 && !hung {
				queue = append(queue, fmt.Sprintf("GET:%d", bidx))
			}
		}
		// ---- emit ----
		var dg []string
		for _, c := range tab.list {
			dg = append(dg, fmt.Sprintf("(%d, %s)", c.cid, gStr(c.md5)))
		}
		var gv []string
		mix := ""
		for mi := range env.dirs {
			k := env.perm[mi]
			gv = append(gv, fmt.Sprintf("V %s %s %s %s", gBool(ro[k]), gBool(full[k]), gStrs(badpfx[k]), gList(initial[mi])))
			if ro[k] {
				mix += "R"
			} else {
				mix += "W"
			}
			if full[k] {
				tags = append(tags, "vol=full")
			}
		}
		for k := range obs {
			obs[k] = "(" + obs[k] + ")"
			ops[k] = "(" + ops[k] + ")"
		}
		for k := range gv {
			gv[k] = "(" + gv[k] + ")"
		}
		term := fmt.Sprintf("{| c_digest := %s;\n   c_names := %s;\n   c_vols := %s;\n   c_ops := %s;\n   c_obs := %s |}",
			gList(dg), gStrs(names), gList(gv), gList(ops), gList(obs))
		desc := map[string]interface{}{"index": i, "volumes": mix, "full": full, "blocks": names, "planted": initial, "requests": descs}
		tags = append(tags, "vols="+mix)
		if collMode {
			tags = append(tags, "md5-collision-pair")
		}
		if bigMode {
			tags = append(tags, "64MiB-block")
		}
		cs.Add(i, term, desc, interesting, tags...)
		verifSetHook(nil)
		env.cleanup()
		if el := time.Since(caseStart); el > 300*time.Millisecond && os.Getenv("VERIF_TIMING") != "" {
			fmt.Printf("case %d took %v (env %v) big=%v ops=%v\n", i, el, dEnv, bigMode, descs)
		}
	}
	cs.Write()
}

func c01PickPattern(r *vRand, b *c01Block, two bool) string {
	size := len(b.data)
	if b.big {
		size = BlockSize
	}
	for {
		x := r.Intn(100)
		if b.coll && r.Chance(1, 4) {
			x = 99
		}
		var pat string
		switch {
		case x < 18:
			pat = "absent"
		case x < 24:
			pat = "absentdir"
		case x < 46:
			pat = "intact"
		case x < 56:
			pat = "bitflip"
		case x < 64:
			pat = "truncate"
		case x < 70:
			pat = "empty"
		case x < 78:
			pat = "append"
		case x < 86:
			pat = "other"
		case x < 90:
			pat = "dir"
		case x < 94:
			pat = "oversize"
		case x < 97:
			pat = "badpfx"
		default:
			pat = "collision"
		}
		if size == 0 && (pat == "bitflip" || pat == "truncate" || pat == "empty") {
			continue
		}
		if pat == "collision" && !b.coll {
			continue
		}
		if b.big && pat == "other" {
			continue
		}
		return pat
	}
}

// c01Exhaustive: for 1..3 volumes, every RO/RW mix, every assignment of the five headline patterns
// {intact, bitflip, truncate, append, other, absent} to the copies, one block, requests GET, PUT, GET.
func c01Exhaustive(t *testing.T, cs *vCases, limit int, only int) {
	pats := []string{"absent", "intact", "bitflip", "truncate", "append", "other"}
	data := []byte("exhaustive small scope block\n")
	hash := fmt.Sprintf("%x", md5.Sum(data))
	idx := 0
	for nvol := 1; nvol <= 3; nvol++ {
		total := 1
		for k := 0; k < nvol; k++ {
			total *= len(pats) * 2
		}
		for code := 0; code < total; code++ {
			i := idx
			idx++
			if only >= 0 && i != only {
				continue
			}
			ro := make([]bool, nvol)
			pat := make([]string, nvol)
			c := code
			for k := 0; k < nvol; k++ {
				ro[k] = c%2 == 1
				c /= 2
				pat[k] = pats[c%len(pats)]
				c /= len(pats)
			}
			tab := newC01Table()
			env, err := ksNewEnv(ksOpts{ro: ro, blobTrash: true, lifetime: 24 * time.Hour})
			if err != nil {
				t.Fatal(err)
			}
			for k := 0; k < nvol; k++ {
				pdir := filepath.Join(env.cfgDirs[k], hash[:3])
				p := filepath.Join(pdir, hash)
				if pat[k] == "absent" {
					continue
				}
				os.MkdirAll(pdir, 0755)
				d := append([]byte(nil), data...)
				switch pat[k] {
				case "bitflip":
					d[(k*7+3)%len(d)] ^= 0x10
				case "truncate":
					d = d[:len(d)-1-k]
				case "append":
					d = append(d, byte('a'+k))
				case "other":
					d = []byte(fmt.Sprintf("another valid block %d", k))
				}
				ioutil.WriteFile(p, d, 0644)
			}
			listing := func() []string {
				var out []string
				for _, dir := range env.dirs {
					p := filepath.Join(dir, hash[:3], hash)
					fi, err := os.Lstat(p)
					if err != nil {
						out = append(out, fmt.Sprintf("[(%s, Absent)]", gStr(hash)))
					} else {
						out = append(out, fmt.Sprintf("[(%s, File %s)]", gStr(hash), tab.file(p, fi).g()))
					}
				}
				return out
			}
			countExtra := func() int {
				extra := 0
				for _, dir := range env.dirs {
					filepath.Walk(dir, func(p string, fi os.FileInfo, err error) error {
						rel := strings.TrimPrefix(strings.TrimPrefix(p, dir), "/")
						if rel != "" && rel != hash[:3] && rel != hash[:3]+"/"+hash {
							extra++
						}
						return nil
					})
				}
				return extra
			}
			initial := listing()
			var ops, obs, descs []string
			for _, kind := range []string{"GET", "PUT", "GET"} {
				gbody, gcl := "None", "None"
				var codeN int
				if kind == "GET" {
					rr := env.do("GET", "/"+hash, nil, -1, false)
					codeN = rr.Code
					if codeN == 200 {
						gbody = "(Some " + tab.bytes(rr.Body.Bytes()).g() + ")"
					}
					if v, err := strconv.ParseInt(rr.Header().Get("Content-Length"), 10, 64); err == nil {
						gcl = fmt.Sprintf("(Some %d)", v)
					}
					ops = append(ops, "(Get "+gStr(hash)+")")
				} else {
					rr := env.do("PUT", "/"+hash, bytes.NewReader(data), -1, false)
					codeN = rr.Code
					ops = append(ops, "(Put "+gStr(hash)+" "+tab.bytes(data).g()+")")
				}
				obs = append(obs, fmt.Sprintf("(O %d %s %s %s %d)", codeN, gbody, gcl, gList(listing()), countExtra()))
				descs = append(descs, fmt.Sprintf("%s -> %d", kind, codeN))
			}
			var dg, gv []string
			for _, c := range tab.list {
				dg = append(dg, fmt.Sprintf("(%d, %s)", c.cid, gStr(c.md5)))
			}
			mix := ""
			patInOrder := []string{}
			for mi := range env.dirs {
				k := env.perm[mi]
				gv = append(gv, fmt.Sprintf("(V %s false [] %s)", gBool(ro[k]), initial[mi]))
				if ro[k] {
					mix += "R"
				} else {
					mix += "W"
				}
				patInOrder = append(patInOrder, pat[k])
			}
			term := fmt.Sprintf("{| c_digest := %s;\n   c_names := %s;\n   c_vols := %s;\n   c_ops := %s;\n   c_obs := %s |}",
				gList(dg), gStrs([]string{hash}), gList(gv), gList(ops), gList(obs))
			cs.Add(i, term, map[string]interface{}{"index": i, "volumes": mix, "patterns": patInOrder, "requests": descs}, true,
				"vols="+mix, fmt.Sprintf("nvol=%d", nvol))
			env.cleanup()
		}
	}
	_ = limit
}
