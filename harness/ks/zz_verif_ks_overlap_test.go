//go:build verif

// Overlapping requests on one router (C01, C02): a response writer whose first Write lets other
// complete requests run before it takes the bytes (a client that is slow to drain its response), a
// request body that lets other requests run before its second part arrives (a slow upload), and a real
// multi-buffer pool in place of the single shared slice of ksInstallBufs, so that a buffer that went
// back to the pool too early (or twice) is handed to the next request.
//
// No timing is involved: the "other" requests run inside the Write/Read call of the stalled one, on the
// same goroutine.  sync.Pool (behind bufferPool) keeps returned items per P; with GOMAXPROCS(1) a
// returned buffer is deterministically the next one handed out, and ksPool.scribble can reach every
// pooled buffer.  Callers therefore wrap the overlapping part in ksOneP().
package main

import (
	"io"
	"net/http"
	"net/http/httptest"
	"runtime"
	"sync/atomic"
	"time"

	"git.arvados.org/arvados.git/sdk/go/ctxlog"
	"github.com/sirupsen/logrus"
)

// serve sends one request through the real router with the given ResponseWriter.
func (e *ksEnv) serve(rw http.ResponseWriter, method, path string, body io.Reader, clen int64, auth bool) {
	if body == nil {
		body = http.NoBody
	}
	req := httptest.NewRequest(method, path, body)
	if clen >= 0 {
		req.ContentLength = clen
	}
	if auth {
		req.Header.Set("Authorization", "Bearer "+ksToken)
	}
	req = req.WithContext(ctxlog.Context(req.Context(), e.quiet))
	e.h.ServeHTTP(rw, req)
}

// ksSlowWriter: the first Write (of the body, or of an error text) calls hook before the bytes are
// copied out of the handler's slice.
type ksSlowWriter struct {
	*httptest.ResponseRecorder
	hook  func()
	fired bool
}

func (w *ksSlowWriter) Write(p []byte) (int, error) {
	if !w.fired {
		w.fired = true
		w.hook()
	}
	return w.ResponseRecorder.Write(p)
}

// ksSlowBody delivers data[:cut], then calls hook, then delivers the rest.
type ksSlowBody struct {
	data  []byte
	cut   int
	pos   int
	hook  func()
	fired bool
}

func (b *ksSlowBody) Read(p []byte) (int, error) {
	if b.pos >= b.cut && !b.fired {
		b.fired = true
		b.hook()
	}
	if b.pos >= len(b.data) {
		return 0, io.EOF
	}
	end := len(b.data)
	if !b.fired && end > b.cut {
		end = b.cut
	}
	n := copy(p, b.data[b.pos:end])
	b.pos += n
	return n, nil
}

func (b *ksSlowBody) Close() error { return nil }

// ksFailBody: an upload that does not arrive completely.  It delivers data, calls hook (other requests
// run while this one holds its buffer with half a body in it), and then ends with err: io.EOF = the
// client closed its side early (body shorter than its Content-Length), anything else = the connection
// broke.
type ksFailBody struct {
	data  []byte
	pos   int
	err   error
	hook  func()
	fired bool
}

func (b *ksFailBody) Read(p []byte) (int, error) {
	if b.pos < len(b.data) {
		n := copy(p, b.data[b.pos:])
		b.pos += n
		return n, nil
	}
	if !b.fired {
		b.fired = true
		if b.hook != nil {
			b.hook()
		}
	}
	return 0, b.err
}

func (b *ksFailBody) Close() error { return nil }

// ksGuard runs f (a request) and reports whether it returned.  A handler that never returns (e.g. one
// blocked for ever in the buffer pool's accounting) must become an observation, not a test timeout: the
// first request of a test process that does not return is given 60 s (far beyond anything a request
// takes here, also under heavy load), later ones 1 s (by then the run has failed anyway; waiting longer
// would only make the failing run slower).  The goroutine of a request that did not return is abandoned.
var ksHangs int32

func ksGuard(f func()) bool {
	done := make(chan struct{})
	go func() {
		defer close(done)
		f()
	}()
	limit := 60 * time.Second
	if atomic.LoadInt32(&ksHangs) > 0 {
		limit = time.Second
	}
	select {
	case <-done:
		return true
	case <-time.After(limit):
		atomic.AddInt32(&ksHangs, 1)
		return false
	}
}

// ksOneP runs f with GOMAXPROCS(1).
func ksOneP(f func()) {
	prev := runtime.GOMAXPROCS(1)
	defer runtime.GOMAXPROCS(prev)
	f()
}

// ksPool: a bufferPool with `count` buffers of BlockSize bytes.  The backing slices are kept across
// cases (a fresh 64 MiB allocation per case costs ~100 ms here); only the pages a case touches are
// ever resident.
type ksPool struct {
	p    *bufferPool
	news int // calls of Pool.New = buffers handed out that were not taken from the pool
	held [][]byte
}

var ksPoolBacking [][]byte

func ksInstallPool(log logrus.FieldLogger, count int) *ksPool { return ksInstallPoolHeld(log, count, 0) }

// ksInstallPoolHeld: as ksInstallPool, with `held` more buffers that are taken right away and kept for
// the whole case: requests of other clients that stay in flight (a slow download, say).  They matter
// only to the pool's accounting: a handler that gives a buffer back twice then does not block in its
// second Put (nobody would notice: its client is gone), and the pool really holds the buffer twice.
func ksInstallPoolHeld(log logrus.FieldLogger, count, held int) *ksPool {
	k := &ksPool{}
	k.p = newBufferPool(log, count+held, BlockSize)
	k.p.Pool.New = func() interface{} {
		n := k.news
		k.news++
		for len(ksPoolBacking) <= n && len(ksPoolBacking) < 6 {
			ksPoolBacking = append(ksPoolBacking, make([]byte, BlockSize))
		}
		if n < len(ksPoolBacking) {
			return ksPoolBacking[n]
		}
		return make([]byte, BlockSize)
	}
	bufs = k.p
	for i := 0; i < held; i++ {
		k.held = append(k.held, k.p.Get(BlockSize))
	}
	return k
}

// scribble plays "any other user of the pool": it takes every buffer that is in the pool right now (it
// stops at the first one the pool had to create), overwrites the first n bytes of each, and puts them
// back.  A buffer that a request still uses is not in the pool, so this cannot disturb a correct
// handler.  Returns the number of buffers overwritten.  Call under ksOneP.
func (k *ksPool) scribble(n int) int {
	var got [][]byte
	fresh := 0
	for k.p.Len() < k.p.Cap() {
		before := k.news
		b := k.p.Get(BlockSize)
		got = append(got, b)
		if k.news != before {
			fresh++
			break
		}
		if n > len(b) {
			n = len(b)
		}
		for i := 0; i < n; i++ {
			b[i] = 0xA5 ^ byte(i)
		}
	}
	for i, b := range got {
		if fresh == 1 && i == len(got)-1 {
			// not from the pool: give back the limiter slot only, and let New hand it out again
			<-k.p.limiter
			k.news--
			continue
		}
		k.p.Put(b)
	}
	return len(got) - fresh
}
