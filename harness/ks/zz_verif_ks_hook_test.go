//go:build verif

// Yield-point hook used by the instrumented copy of unix_volume.go (tools/instrument).
package main

import (
	"io"
	"sync/atomic"
)

var verifHookV atomic.Value // func(label string)

func verifSetHook(f func(label string)) {
	if f == nil {
		f = func(string) {}
	}
	verifHookV.Store(f)
}

func verifPoint(label string) {
	if h, ok := verifHookV.Load().(func(string)); ok && h != nil {
		h(label)
	}
}

type verifW struct {
	w     io.Writer
	label string
}

func (x verifW) Write(p []byte) (int, error) {
	verifPoint(x.label)
	return x.w.Write(p)
}

func verifWriter(w io.Writer, label string) io.Writer { return verifW{w, label} }

// verifEnter/verifActive: number of instrumented UnixVolume methods currently running.
var verifActiveN int32

func verifEnter(method string) func() {
	atomic.AddInt32(&verifActiveN, 1)
	return func() { atomic.AddInt32(&verifActiveN, -1) }
}

func verifActive() int { return int(atomic.LoadInt32(&verifActiveN)) }
