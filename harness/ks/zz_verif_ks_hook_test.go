//go:build verif

// Yield-point hook used by the instrumented copy of unix_volume.go (tools/instrument).
package main

import (
	"io"
	"sync/atomic"
	"time"
)

var verifHookV atomic.Value // func(label string)

func verifSetHook(f func(label string)) {
	if f == nil {
		f = func(string) {}
	}
	verifHookV.Store(f)
}

func verifPoint(label string) {
	if h, ok := verifHookV.Load().(func(string)); ok && h != nil {
		h(label)
	}
}

type verifW struct {
	w     io.Writer
	label string
}

func (x verifW) Write(p []byte) (int, error) {
	verifPoint(x.label)
	return x.w.Write(p)
}

func verifWriter(w io.Writer, label string) io.Writer { return verifW{w, label} }

// verifEnter/verifActive: number of instrumented UnixVolume methods currently running.
var verifActiveN int32

func verifEnter(method string) func() {
	atomic.AddInt32(&verifActiveN, 1)
	return func() { atomic.AddInt32(&verifActiveN, -1) }
}

func verifActive() int { return int(atomic.LoadInt32(&verifActiveN)) }

// verifAux: yield points that only the delayed-write level of C04 uses (before v.lock = waiting for the
// Serialize mutex).  No hook installed = no effect, so the step lists of C02 and C04 (I) are unchanged.
var verifAuxV atomic.Value // func(label string)

func verifSetAuxHook(f func(label string)) {
	if f == nil {
		f = func(string) {}
	}
	verifAuxV.Store(f)
}

func verifAux(label string) {
	if h, ok := verifAuxV.Load().(func(string)); ok && h != nil {
		h(label)
	}
}

// verifNow replaces time.Now() in the instrumented unix_volume.go: the real clock plus an offset that a
// harness may advance while a request is parked at a yield point ("time passes").
var verifClockOffset int64 // nanoseconds

func verifNow() time.Time { return time.Now().Add(time.Duration(atomic.LoadInt64(&verifClockOffset))) }

func verifAdvanceClock(d time.Duration) { atomic.AddInt64(&verifClockOffset, int64(d)) }
