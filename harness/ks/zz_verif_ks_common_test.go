//go:build verif

// Shared by the keepstore harnesses (C01, C02, C04): builds the real handler (h.setup -> volume
// manager, work queues, MakeRESTRouter) over Directory volumes in temp dirs, offline.
package main

import (
	"bytes"
	"context"
	"encoding/json"
	"fmt"
	"io"
	"io/ioutil"
	"net/http"
	"net/http/httptest"
	"os"
	"time"

	"git.arvados.org/arvados.git/lib/config"
	"git.arvados.org/arvados.git/sdk/go/arvados"
	"git.arvados.org/arvados.git/sdk/go/ctxlog"
	"github.com/prometheus/client_golang/prometheus"
	"github.com/sirupsen/logrus"
)

const ksToken = "systemroottokensystemroottokensystemroottoken"

type ksEnv struct {
	cluster *arvados.Cluster
	h       *handler
	quiet   *logrus.Logger
	cfgDirs []string // by configuration index
	dirs    []string // in volume-manager (mount) order
	ro      []bool   // in mount order
	uuids   []string // in mount order
	perm    []int    // mount order -> configuration index
	// configuration as written (by configuration index); see ksOpts.access
	cfgRO    []bool
	cfgUUIDs []string
	access   []ksAccess
}

// ksAccess describes Volumes.<uuid>.AccessViaHosts of one configured volume: an entry for this
// server's URL (ksSelfURL) and/or for another server's URL (ksOtherURL), each 0 = no entry,
// 1 = entry with ReadOnly false, 2 = entry with ReadOnly true.  A volume whose AccessViaHosts is
// non-empty and does not name this server is not this server's volume at all.
type ksAccess struct {
	self  int
	other int
}

var ksOtherURL = arvados.URL{Scheme: "http", Host: "otherkeep.example:25107"}

func ksSelfURL() arvados.URL { return testServiceURL }

type ksOpts struct {
	ro        []bool
	access    []ksAccess // per configured volume (nil: no AccessViaHosts anywhere)
	dirs      []string // reuse these directories (restart on the same volumes) instead of new temp dirs
	ttl       time.Duration
	lifetime  time.Duration
	blobTrash bool
	serialize bool
}

func ksQuiet() *logrus.Logger {
	q := logrus.New()
	q.SetOutput(ioutil.Discard)
	ctxlog.SetLevel("panic")
	return q
}

func ksNewEnv(o ksOpts) (*ksEnv, error) {
	e := &ksEnv{quiet: ksQuiet()}
	ldr := config.NewLoader(bytes.NewBufferString("Clusters: {zzzzz: {}}"), e.quiet)
	ldr.Path = "-"
	cfg, err := ldr.Load()
	if err != nil {
		return nil, err
	}
	cluster, err := cfg.GetCluster("")
	if err != nil {
		return nil, err
	}
	cluster.SystemRootToken = ksToken
	cluster.Collections.BlobSigning = false
	cluster.Collections.BlobTrash = o.blobTrash
	if o.ttl == 0 {
		o.ttl = 2 * time.Hour
	}
	cluster.Collections.BlobSigningTTL = arvados.Duration(o.ttl)
	cluster.Collections.BlobTrashLifetime = arvados.Duration(o.lifetime)
	cluster.Collections.BlobTrashCheckInterval = 0
	cluster.Collections.BlobDeleteConcurrency = 1
	cluster.Services.Controller.ExternalURL = arvados.URL{Scheme: "http", Host: "localhost:1"}
	cluster.Volumes = map[string]arvados.Volume{}
	byUUID := map[string]int{}
	for i, ro := range o.ro {
		var d string
		if o.dirs != nil {
			d = o.dirs[i]
		} else {
			d, err = ioutil.TempDir("", "ksv")
			if err != nil {
				return nil, err
			}
		}
		e.cfgDirs = append(e.cfgDirs, d)
		p, _ := json.Marshal(map[string]interface{}{"Root": d, "Serialize": o.serialize})
		uuid := fmt.Sprintf("zzzzz-nyw5e-%015d", i)
		byUUID[uuid] = i
		var via map[arvados.URL]arvados.VolumeAccess
		var acc ksAccess
		if o.access != nil {
			acc = o.access[i]
		}
		if acc.self != 0 || acc.other != 0 {
			via = map[arvados.URL]arvados.VolumeAccess{}
			if acc.self != 0 {
				via[ksSelfURL()] = arvados.VolumeAccess{ReadOnly: acc.self == 2}
			}
			if acc.other != 0 {
				via[ksOtherURL] = arvados.VolumeAccess{ReadOnly: acc.other == 2}
			}
		}
		cluster.Volumes[uuid] = arvados.Volume{Replication: 1, Driver: "Directory", DriverParameters: p, ReadOnly: ro, AccessViaHosts: via}
		e.cfgRO = append(e.cfgRO, ro)
		e.cfgUUIDs = append(e.cfgUUIDs, uuid)
		e.access = append(e.access, acc)
	}
	e.cluster = cluster
	e.h = &handler{}
	ctx := ctxlog.Context(context.Background(), e.quiet)
	// GetDeviceID execs findmnt once per volume (10-20 ms each here); the device id plays no role in
	// the properties checked, so make the lookup fail fast.
	oldPath := os.Getenv("PATH")
	os.Setenv("PATH", "/nonexistent")
	defer os.Setenv("PATH", oldPath)
	if err := e.h.setup(ctx, cluster, "", prometheus.NewRegistry(), testServiceURL); err != nil {
		return nil, err
	}
	ksInstallBufs(e.quiet)
	for _, m := range e.h.volmgr.AllReadable() {
		i := byUUID[m.UUID]
		e.perm = append(e.perm, i)
		e.dirs = append(e.dirs, e.cfgDirs[i])
		e.ro = append(e.ro, o.ro[i])
		e.uuids = append(e.uuids, m.UUID)
	}
	return e, nil
}

// handler.setup creates a fresh pool of 64 MiB buffers (sync.Pool: re-allocated and zeroed after every
// GC), which costs ~100 ms per case.  The harnesses issue at most one buffer-using request at a time,
// so the pool is replaced by one that always hands out the same 64 MiB slice (never cleared: stale
// bytes beyond the block size must not leak into answers).
var ksBigBuf []byte

func ksInstallBufs(log logrus.FieldLogger) {
	if ksBigBuf == nil {
		ksBigBuf = make([]byte, BlockSize)
	}
	// (4 of the 12 places are taken for good: other clients' requests in flight elsewhere.  They matter
	// only to the pool's accounting, see ksInstallPoolHeld.)
	p := newBufferPool(log, 12, BlockSize)
	p.Pool.New = func() interface{} { return ksBigBuf }
	for i := 0; i < 4; i++ {
		p.limiter <- true
	}
	bufs = p
}

// advertised returns what GET /mounts says: mount uuids and their read_only flags, in the order given.
func (e *ksEnv) advertised() (uuids []string, ro []bool, err error) {
	rec := e.do("GET", "/mounts", nil, -1, true)
	if rec.Code != 200 {
		return nil, nil, fmt.Errorf("GET /mounts: status %d", rec.Code)
	}
	var ms []struct {
		UUID     string `json:"uuid"`
		ReadOnly bool   `json:"read_only"`
	}
	if err := json.Unmarshal(rec.Body.Bytes(), &ms); err != nil {
		return nil, nil, err
	}
	for _, m := range ms {
		uuids = append(uuids, m.UUID)
		ro = append(ro, m.ReadOnly)
	}
	return uuids, ro, nil
}

func (e *ksEnv) cleanup() {
	for _, d := range e.cfgDirs {
		os.RemoveAll(d)
	}
}

// do sends one request through the real router and returns the recorder.
func (e *ksEnv) do(method, path string, body io.Reader, clen int64, auth bool) *httptest.ResponseRecorder {
	if body == nil {
		body = bytes.NewReader(nil)
	}
	req := httptest.NewRequest(method, path, body)
	if clen >= 0 {
		req.ContentLength = clen
	}
	if auth {
		req.Header.Set("Authorization", "Bearer "+ksToken)
	}
	req = req.WithContext(ctxlog.Context(req.Context(), e.quiet))
	rec := httptest.NewRecorder()
	e.h.ServeHTTP(rec, req)
	return rec
}

var _ = http.StatusOK
