//go:build verif

// C03 harness: drives KeepClient.Get / ReadAt (BlockCache) / CollectionFileReader against scripted
// Keep services.  Most cases use an HTTPClient stub whose body readers emulate the net/http transport
// rule (declared length n => exactly the first n bytes, unexpected EOF if the server sends fewer);
// a share of the cases runs through real loopback httptest servers so that the rule itself is exercised.
package keepclient

import (
	"bytes"
	"crypto/md5"
	"errors"
	"fmt"
	"io"
	"net"
	"net/http"
	"net/http/httptest"
	"os"
	"regexp"
	"runtime"
	"strings"
	"sync"
	"testing"
	"time"

	"git.arvados.org/arvados.git/sdk/go/arvadosclient"
)

// ---- scripted responses ----

type c03Resp struct {
	conn     bool
	status   int
	declared int // -1: no Content-Length (chunked)
	body     []byte
	cut      bool
	beh      string
}

const (
	c03Correct = iota
	c03Flip
	c03ShortConsistent
	c03ShortTruncated
	c03LongConsistent
	c03LongExtra
	c03CLBigger
	c03ChunkedOK
	c03ChunkedLong
	c03ChunkedShort
	c03ChunkedCut
	c03ChunkedFlip
	c03S404
	c03S408
	c03S429
	c03S500
	c03S503
	c03S403
	c03Conn
	c03NBeh
)

var c03BehNames = []string{"correct", "flipped-bit", "short(consistent length)", "short(truncated)", "long(consistent length)", "long(extra bytes)",
	"content-length-bigger", "chunked-ok", "chunked-long", "chunked-short", "chunked-cut", "chunked-flipped", "404", "408", "429", "500", "503", "403", "connection-error"}

func c03FlipAt(c []byte, k int) []byte {
	b := append([]byte(nil), c...)
	b[k] ^= 1
	return b
}

// c03MakeResp builds the response for behaviour beh; flipK is the byte to corrupt.
func c03MakeResp(beh int, c []byte, flipK int) c03Resp {
	L := len(c)
	r := c03Resp{status: 200, declared: L, body: c, beh: c03BehNames[beh]}
	short := c
	if L > 0 {
		short = c[:L-1]
	}
	long := append(append([]byte(nil), c...), 'x')
	flip := []byte{0}
	if L > 0 {
		flip = c03FlipAt(c, flipK%L)
	}
	switch beh {
	case c03Correct:
	case c03Flip:
		r.body, r.declared = flip, len(flip)
	case c03ShortConsistent:
		r.body, r.declared = short, len(short)
	case c03ShortTruncated:
		r.body = short
	case c03LongConsistent:
		r.body, r.declared = long, len(long)
	case c03LongExtra:
		r.body = long
	case c03CLBigger:
		r.declared = L + 1
	case c03ChunkedOK:
		r.declared = -1
	case c03ChunkedLong:
		r.body, r.declared = long, -1
	case c03ChunkedShort:
		r.body, r.declared = short, -1
	case c03ChunkedCut:
		r.declared, r.cut = -1, true
	case c03ChunkedFlip:
		r.body, r.declared = flip, -1
	case c03S404, c03S408, c03S429, c03S500, c03S503, c03S403:
		r.status = map[int]int{c03S404: 404, c03S408: 408, c03S429: 429, c03S500: 500, c03S503: 503, c03S403: 403}[beh]
		r.body = []byte("no")
		r.declared = 2
	case c03Conn:
		r = c03Resp{conn: true, beh: c03BehNames[beh]}
	}
	return r
}

// what the client sees of a 200 response (the transport rule; used by the stub and for the H table)
func (r c03Resp) stream() ([]byte, bool) {
	if r.declared >= 0 {
		if len(r.body) >= r.declared {
			return r.body[:r.declared], false
		}
		return r.body, true
	}
	return r.body, r.cut
}

type c03Block struct {
	loc        string
	content    []byte
	consistent bool
	declOnly   bool // inconsistent-hint blocks, a stratum: every scripted 200 answer declares a Content-Length
	order      []int
	script     [][]c03Resp
}

// the declared-length counterpart of a chunked behaviour (what the client sees is the same stream, but the
// response says how long it is)
var c03Declared = map[int]int{c03ChunkedOK: c03Correct, c03ChunkedLong: c03LongConsistent, c03ChunkedShort: c03ShortConsistent,
	c03ChunkedCut: c03ShortTruncated, c03ChunkedFlip: c03Flip}

type c03Op struct {
	kind     int // 0 get, 1 readat, 2 group, 3 file
	blk      int
	mode     int // get: 0 readall, 1 readfull, 2 writeto, 3 close only
	k        int // readfull size / group size
	n, off   int
	segs     [][3]int
	writerTo bool // stub body implements io.WriterTo
	chunk    int  // stub body: bytes per Read (0 = everything that fits)
}

type c03Case struct {
	nsvc    int
	retries int
	retryCl bool // retry stratum: transient/404 mixtures over 3-4 rounds (error class of the failed read)
	blocks  []*c03Block
	ops     []c03Op
	net     bool
	tags    []string
}

// ---- Gallina printing with the contents bound by let (c0, c1): pure syntax ----

func (c *c03Case) str(s []byte) string {
	if len(s) <= 1 {
		return gStr(string(s))
	}
	for i, b := range c.blocks {
		v := fmt.Sprintf("c%d", i)
		L := len(b.content)
		if L <= 1 {
			continue
		}
		switch {
		case bytes.Equal(s, b.content):
			return v
		case len(s) < L && bytes.Equal(s, b.content[:len(s)]):
			return fmt.Sprintf("(take %d %s)", len(s), v)
		case len(s) == L+1 && bytes.Equal(s[:L], b.content) && s[L] == 'x':
			return fmt.Sprintf("(%s ++ \"x\")%%string", v)
		case len(s) == L:
			d := -1
			for j := range s {
				if s[j] != b.content[j] {
					if d >= 0 || s[j]^b.content[j] != 1 {
						d = -2
						break
					}
					d = j
				}
			}
			if d >= 0 {
				return fmt.Sprintf("(flip_at %d %s)", d, v)
			}
		}
		if idx := bytes.Index(b.content, s); idx >= 0 {
			return fmt.Sprintf("(take %d (drop %d %s))", len(s), idx, v)
		}
	}
	return gStr(string(s))
}

func (c *c03Case) lets() string {
	var sb strings.Builder
	for i, b := range c.blocks {
		fmt.Fprintf(&sb, "let c%d := %s in ", i, gStr(string(b.content)))
	}
	return sb.String()
}

func (c *c03Case) respTerm(r c03Resp) string {
	if r.conn {
		return "ConnErr"
	}
	d := "None"
	if r.declared >= 0 {
		d = fmt.Sprintf("(Some %d)", r.declared)
	}
	return fmt.Sprintf("Resp %d%%N %s %s %s", r.status, d, c.str(r.body), gBool(r.cut))
}

func c03Ints(xs []int) string {
	s := make([]string, len(xs))
	for i, x := range xs {
		s[i] = fmt.Sprint(x)
	}
	return gList(s)
}

var c03Modes = []string{"MReadAll", "MReadFull", "MWriteTo", "MCloseOnly"}

func (c *c03Case) opTerm(o c03Op) string {
	switch o.kind {
	case 0:
		m := c03Modes[o.mode]
		if o.mode == 1 {
			m = fmt.Sprintf("(MReadFull %d)", o.k)
		}
		return fmt.Sprintf("OGet %d %s", o.blk, m)
	case 1:
		return fmt.Sprintf("OReadAt %d %d %d", o.blk, o.n, o.off)
	case 2:
		return fmt.Sprintf("OGroup %d %d %d %d", o.k, o.blk, o.n, o.off)
	}
	sg := make([]string, len(o.segs))
	for i, s := range o.segs {
		sg[i] = fmt.Sprintf("(%d, %d, %d)", s[0], s[1], s[2])
	}
	return fmt.Sprintf("OFile %s %d", gList(sg), o.off)
}

// ---- error classes ----

func c03Err(err error) string {
	switch {
	case err == nil:
		return "ENil"
	case err == io.EOF:
		return "EEOF"
	case err == BadChecksum:
		return "EBadChecksum"
	case err == io.ErrUnexpectedEOF:
		return "EUEOF"
	case err == BlockNotFound:
		return "ENotFound"
	}
	var nf *ErrNotFound
	if errors.As(err, &nf) {
		if nf.Temporary() {
			return "ETemp"
		}
		return "EPerm"
	}
	if strings.Contains(err.Error(), "no size hint, no Content-Length") {
		return "ENoSize"
	}
	if strings.Contains(err.Error(), "!= Content-Length") {
		return "ESizeMismatch"
	}
	if strings.Contains(err.Error(), "wrong number of bytes") {
		// ErrBlockSizeMismatch (fix F25); matched by text so that this harness also builds against a tree without the fix
		return "EBadSize"
	}
	if strings.Contains(err.Error(), "unexpected EOF") {
		return "EUEOF"
	}
	return "EOther"
}

// ---- stub services ----

type c03Body struct {
	data  []byte
	pos   int
	ueof  bool
	chunk int // > 0: a Read hands over at most this many bytes (as a network body does)
}

func (b *c03Body) Read(p []byte) (int, error) {
	if b.pos < len(b.data) {
		if b.chunk > 0 && len(p) > b.chunk {
			p = p[:b.chunk]
		}
		n := copy(p, b.data[b.pos:])
		b.pos += n
		return n, nil
	}
	if b.ueof {
		return 0, io.ErrUnexpectedEOF
	}
	return 0, io.EOF
}
func (b *c03Body) Close() error { return nil }

type c03BodyWT struct{ c03Body }

func (b *c03BodyWT) WriteTo(w io.Writer) (int64, error) {
	n, err := w.Write(b.data[b.pos:])
	b.pos += n
	if err == nil && b.ueof {
		err = io.ErrUnexpectedEOF
	}
	return int64(n), err
}

type c03Services struct {
	mtx      sync.Mutex
	c        *c03Case
	byHost   map[string]int
	attempt  map[[2]int]int
	log      [][3]int
	hold     chan struct{} // when non-nil, requests wait here before they are answered
	held     int
	writerTo bool
	chunk    int
	unknown  int
}

// next returns the scripted response for a request (host, locator) and logs it
func (s *c03Services) next(host, loc string) (c03Resp, bool) {
	s.mtx.Lock()
	svc, ok := s.byHost[host]
	blk := -1
	for i, b := range s.c.blocks {
		if b.loc == loc {
			blk = i
			break
		}
	}
	if !ok || blk < 0 {
		s.unknown++
		s.mtx.Unlock()
		return c03Resp{conn: true}, false
	}
	a := s.attempt[[2]int{blk, svc}]
	s.attempt[[2]int{blk, svc}]++
	s.log = append(s.log, [3]int{blk, svc, a})
	hold := s.hold
	if hold != nil {
		s.held++
	}
	s.mtx.Unlock()
	if hold != nil {
		<-hold
	}
	r := c03Resp{conn: true}
	if svc < len(s.c.blocks[blk].script) && a < len(s.c.blocks[blk].script[svc]) {
		r = s.c.blocks[blk].script[svc][a]
	}
	return r, true
}

func (s *c03Services) Do(req *http.Request) (*http.Response, error) {
	r, _ := s.next(req.URL.Scheme+"://"+req.URL.Host, strings.TrimPrefix(req.URL.Path, "/"))
	if r.conn {
		return nil, errors.New("verif stub: connection refused")
	}
	data, ueof := r.stream()
	s.mtx.Lock()
	wt, chunk := s.writerTo, s.chunk
	s.mtx.Unlock()
	var body io.ReadCloser = &c03Body{data: data, ueof: ueof, chunk: chunk}
	if wt {
		body = &c03BodyWT{c03Body{data: data, ueof: ueof}}
	}
	return &http.Response{StatusCode: r.status, Status: fmt.Sprint(r.status), Header: http.Header{}, ContentLength: int64(r.declared), Body: body, Request: req}, nil
}

// handler for the loopback servers: the same script over real net/http.  The response is written raw on
// the hijacked connection, because Go's http.Server refuses to send a body that disagrees with the
// declared Content-Length, and that is exactly what a broken or malicious service does.
func (s *c03Services) handler(host string) http.Handler {
	return http.HandlerFunc(func(w http.ResponseWriter, req *http.Request) {
		r, _ := s.next(host, strings.TrimPrefix(req.URL.Path, "/"))
		hj, ok := w.(http.Hijacker)
		if !ok {
			panic("no hijacker")
		}
		conn, bw, err := hj.Hijack()
		if err != nil {
			panic(err)
		}
		defer conn.Close()
		if r.conn {
			// no response at all: reset the connection
			if tc, ok := conn.(*net.TCPConn); ok {
				tc.SetLinger(0)
			}
			return
		}
		fmt.Fprintf(bw, "HTTP/1.1 %d %s\r\nConnection: close\r\n", r.status, http.StatusText(r.status))
		if r.declared >= 0 {
			fmt.Fprintf(bw, "Content-Length: %d\r\n\r\n", r.declared)
			bw.Write(r.body)
			bw.Flush()
			return
		}
		fmt.Fprintf(bw, "Transfer-Encoding: chunked\r\n\r\n")
		// two chunks when possible
		h := len(r.body) / 2
		for _, part := range [][]byte{r.body[:h], r.body[h:]} {
			if len(part) > 0 {
				fmt.Fprintf(bw, "%x\r\n", len(part))
				bw.Write(part)
				bw.WriteString("\r\n")
			}
		}
		if !r.cut {
			bw.WriteString("0\r\n\r\n")
		}
		bw.Flush()
	})
}

// ---- generator ----

func c03Content(r *vRand) []byte {
	var n int
	switch x := r.Intn(100); {
	case x < 12:
		n = 0
	case x < 30:
		n = 1
	case x < 92:
		n = 11
	case x < 96:
		n = 40 + r.Intn(100)
	default:
		n = 4096
	}
	b := make([]byte, n)
	for i := range b {
		b[i] = byte(r.Intn(256))
	}
	if n == 11 && r.Bool() {
		copy(b, "hello world")
		b[r.Intn(11)] = byte('a' + r.Intn(26))
	}
	return b
}

func c03Script(r *vRand, c *c03Case, bl *c03Block, nAttempts int) [][]c03Resp {
	content := bl.content
	mode := r.Intn(5)
	if c.retryCl {
		mode = 6
	}
	if !bl.consistent {
		// a locator whose size hint is wrong is interesting when a service answers 200 with a well-formed
		// body (right digest, Content-Length = real length != hint): mostly-200 scripts
		mode = []int{2, 3, 5, 5}[r.Intn(4)]
	}
	sc := make([][]c03Resp, c.nsvc)
	for s := range sc {
		for a := 0; a < nAttempts; a++ {
			var beh int
			switch mode {
			case 0: // anything
				beh = r.Intn(c03NBeh)
			case 1: // mostly failures, then maybe a good one
				beh = c03S404 + r.Intn(c03NBeh-c03S404)
				if r.Chance(1, 4) {
					beh = r.Intn(c03S404)
				}
			case 2: // mostly 200 variants
				beh = r.Intn(c03S404)
				if r.Chance(1, 5) {
					beh = c03S404 + r.Intn(c03NBeh-c03S404)
				}
			case 3: // transient first, then correct
				if a == 0 {
					beh = []int{c03S408, c03S429, c03S500, c03S503, c03Conn}[r.Intn(5)]
				} else {
					beh = []int{c03Correct, c03ChunkedOK, c03LongExtra}[r.Intn(3)]
				}
			case 6: // retry stratum: per service a run of transient failures that ends in a 404, a 403, an answer, or never
				switch y := r.Intn(20); {
				case y < 11:
					beh = []int{c03S408, c03S429, c03S500, c03S503, c03Conn}[r.Intn(5)]
				case y < 17:
					beh = c03S404
				case y < 18:
					beh = c03S403
				default:
					beh = []int{c03Correct, c03ChunkedOK, c03Flip}[r.Intn(3)]
				}
			case 5: // the first answer of every service is (mostly) the stored block as it is
				beh = r.Intn(c03S404)
				if r.Chance(1, 6) {
					beh = c03S404 + r.Intn(c03NBeh-c03S404)
				}
				if a == 0 && r.Chance(3, 4) {
					beh = []int{c03Correct, c03Correct, c03Correct, c03ChunkedOK}[r.Intn(4)]
				}
			default: // all 404 / mixtures of 404 and permanent
				beh = c03S404
				if r.Chance(1, 6) {
					beh = []int{c03S403, c03S500, c03Conn}[r.Intn(3)]
				}
			}
			if d, ok := c03Declared[beh]; ok && bl.declOnly {
				beh = d
			}
			sc[s] = append(sc[s], c03MakeResp(beh, content, r.Intn(1<<20)))
		}
	}
	return sc
}

func c03Gen(t *testing.T, r *vRand, i int) *c03Case {
	c := &c03Case{nsvc: 1 + r.Intn(4), retries: r.Intn(3)}
	kind := r.Intn(100)
	c.net = kind >= 88
	nblocks := 1
	if kind%3 == 0 {
		nblocks = 2
	}
	fileCase := kind%4 == 1
	if r.Chance(1, 6) {
		// the error class of a read that fails after several rounds: enough rounds for the retry set to shrink twice
		c.retryCl, fileCase = true, false
		c.retries = 2 + r.Intn(4)/3
		c.tags = append(c.tags, "retry-stratum")
	}
	for b := 0; b < nblocks; b++ {
		content := c03Content(r)
		if b == 1 && len(content) == 0 {
			content = []byte("second block")
		}
		if b == 1 && bytes.Equal(content, c.blocks[0].content) {
			content = append(content, 'y')
		}
		hash := fmt.Sprintf("%x", md5.Sum(content))
		bl := &c03Block{content: content, consistent: true}
		hint := r.Chance(3, 4) || fileCase
		bl.loc = hash
		if hint {
			bl.loc += fmt.Sprintf("+%d", len(content))
			if r.Chance(3, 25) && !fileCase {
				// a locator whose size hint is not the size of the data with that hash (wrong hint in a manifest,
				// hint rewritten on the way): judged by the locator clauses of spec_b (digest and size of what is
				// delivered as a success), not by the content clauses
				h := len(content) + []int{-2, -1, 1, 2, 3}[r.Intn(5)]
				if h < 0 {
					h = len(content) + 1 + r.Intn(3)
				}
				bl.loc = fmt.Sprintf("%s+%d", hash, h)
				bl.consistent = false
				bl.declOnly = r.Chance(1, 3) // since fix F25 answers without Content-Length are judged like the others
				c.tags = append(c.tags, "inconsistent-hint")
				if h > len(content) {
					c.tags = append(c.tags, "hint-too-big")
				} else {
					c.tags = append(c.tags, "hint-too-small")
				}
				if bl.declOnly {
					c.tags = append(c.tags, "declared-only-script")
				}
			}
		}
		if r.Chance(1, 4) {
			bl.loc += "+Afoo@5f000000"
		}
		if hint {
			c.tags = append(c.tags, "hinted")
		} else {
			c.tags = append(c.tags, "no-hint")
		}
		c.tags = append(c.tags, fmt.Sprintf("size=%d", c03SizeBucket(len(content))))
		c.blocks = append(c.blocks, bl)
	}
	c.tags = append(c.tags, fmt.Sprintf("services=%d", c.nsvc), fmt.Sprintf("retries=%d", c.retries))
	// operations
	nops := 1 + r.Intn(4)
	hasHint := func(b int) bool { return size03(c.blocks[b].loc) >= 0 }
	for k := 0; k < nops; k++ {
		b := r.Intn(nblocks)
		if nblocks == 2 && c.blocks[b].consistent && !c.blocks[1-b].consistent && r.Bool() {
			b = 1 - b // operations prefer the block whose size hint is wrong
		}
		L := len(c.blocks[b].content)
		o := c03Op{blk: b}
		x := r.Intn(100)
		// half of the operations on a block with a wrong size hint are the ones that would show wrongly sized
		// data as a success: a complete streaming read, a cached read of the whole block
		probe := !c.blocks[b].consistent && r.Bool()
		switch {
		case probe:
			hn := size03(c.blocks[b].loc)
			switch y := r.Intn(20); {
			case y < 12:
				o.kind, o.mode = 0, []int{0, 2}[r.Intn(2)]
				o.writerTo = r.Chance(1, 3)
			case y < 17 || c.net:
				o.kind, o.n, o.off = 1, []int{hn, hn + 2, L + 3}[r.Intn(3)], 0
			default:
				o.kind, o.k, o.n, o.off = 2, 2+r.Intn(3), []int{hn, hn + 2, L + 3}[r.Intn(3)], 0
			}
		case fileCase && x < 60:
			o.kind = 3
			total := 0
			for s := 0; s < 1+r.Intn(3); s++ {
				sb := r.Intn(nblocks)
				sl := len(c.blocks[sb].content)
				if sl == 0 || !c.blocks[sb].consistent {
					continue
				}
				off := r.Intn(sl)
				ln := 1 + r.Intn(sl-off)
				o.segs = append(o.segs, [3]int{sb, off, ln})
				total += ln
			}
			if len(o.segs) == 0 {
				o.kind, o.n, o.off = 1, 1+r.Intn(8), 0
				break
			}
			o.off = 0
			if r.Chance(1, 3) {
				o.off = r.Intn(total + 2)
			}
			if r.Bool() {
				o.k = 1 + r.Intn(7)
			}
		case x < 40 && !fileCase:
			o.kind = 0
			o.mode = r.Intn(4)
			if o.mode == 1 {
				o.k = []int{0, 1, L, L + 1, L / 2, L - 1}[r.Intn(6)]
				if hn := size03(c.blocks[b].loc); !c.blocks[b].consistent && r.Bool() {
					o.k = []int{hn, hn + 1, hn - 1}[r.Intn(3)]
				}
				if o.k < 0 {
					o.k = 0
				}
			}
			o.writerTo = r.Chance(1, 3)
		case x < 50 && !c.net && (hasHint(b) || r.Chance(1, 4)):
			o.kind = 2
			o.k = 2 + r.Intn(3)
			o.n = 1 + r.Intn(L+2)
			o.off = r.Intn(L + 2)
			if hn := size03(c.blocks[b].loc); !c.blocks[b].consistent && r.Bool() {
				o.n, o.off = []int{hn, hn + 2, L + 3}[r.Intn(3)], 0
			}
		default:
			if !hasHint(b) && !r.Chance(1, 3) {
				// without a size hint the cache allocates a 64 MiB buffer per fetch: keep those rare
				o.kind, o.mode = 0, r.Intn(3)
				break
			}
			o.kind = 1
			o.n = []int{0, 1, L, L + 3, 1 + r.Intn(L+1)}[r.Intn(5)]
			o.off = []int{0, 0, L, L + 1, r.Intn(L + 1)}[r.Intn(5)]
			if hn := size03(c.blocks[b].loc); !c.blocks[b].consistent && r.Bool() {
				o.n = []int{hn, hn + 2, L + 3, 1}[r.Intn(4)]
				o.off = []int{0, 0, 0, 1, hn, hn + 1}[r.Intn(6)]
			}
		}
		o.chunk = []int{0, 0, 0, 1, 3, 7}[r.Intn(6)]
		c.ops = append(c.ops, o)
	}
	// enough scripted attempts for every fetch the operations can cause
	// (a request beyond the script gets a connection error, in the stub and in the model alike)
	nAtt := (c.retries + 1) * (len(c.ops) + 1)
	if nAtt > 5 && !c.retryCl {
		nAtt = 5
	}
	if nAtt > 12 {
		nAtt = 12
	}
	for _, bl := range c.blocks {
		bl.script = c03Script(r, c, bl, nAtt)
	}
	if c.net {
		c.tags = append(c.tags, "loopback-http")
	} else {
		c.tags = append(c.tags, "stub-transport")
	}
	return c
}

// c03DeclaredOnly: no scripted answer of the block is a 200 without Content-Length (description only; the
// judge recomputes this from the case term)
func c03DeclaredOnly(b *c03Block) bool {
	for _, row := range b.script {
		for _, r := range row {
			if !r.conn && r.status == 200 && r.declared < 0 {
				return false
			}
		}
	}
	return true
}

func c03SizeBucket(n int) int {
	switch {
	case n <= 1:
		return n
	case n <= 11:
		return 11
	case n < 4096:
		return 100
	}
	return 4096
}

// size03 mirrors nothing of the implementation: it only tells the generator whether it wrote a hint
var c03HintRe = regexp.MustCompile(`^[0-9a-f]{32}\+([0-9]+)`)

func size03(loc string) int {
	m := c03HintRe.FindStringSubmatch(loc)
	if m == nil {
		return -1
	}
	n := 0
	fmt.Sscan(m[1], &n)
	return n
}

// ---- running a case ----

// c03ReadAll is ioutil.ReadAll with a fixed buffer size (a clean EOF is reported as nil), except that a reader
// which keeps answering (0, nil) ends in an error instead of hanging the harness.
func c03ReadAll(r io.Reader, bufsize int) (got []byte, e error) {
	buf := make([]byte, bufsize)
	idle := 0
	for e == nil {
		var m int
		m, e = r.Read(buf)
		got = append(got, buf[:m]...)
		if idle++; m > 0 {
			idle = 0
		} else if idle > 1000 && e == nil {
			e = errors.New("verif: Read makes no progress")
		}
	}
	if e == io.EOF {
		e = nil
	}
	return
}

type c03Result struct {
	term string
	desc string
}

func c03ParkedReaders() int {
	buf := make([]byte, 1<<20)
	n := runtime.Stack(buf, true)
	cnt := 0
	for _, g := range strings.Split(string(buf[:n]), "\n\n") {
		if strings.Contains(g, "[chan receive") && strings.Contains(g, "(*BlockCache).Get(") {
			cnt++
		}
	}
	return cnt
}

func c03Wait(d time.Duration, cond func() bool) bool {
	deadline := time.Now().Add(d)
	for i := 0; ; i++ {
		if cond() {
			return true
		}
		if i < 20 {
			runtime.Gosched()
		} else {
			time.Sleep(50 * time.Microsecond)
			if time.Now().After(deadline) {
				return false
			}
		}
	}
}

func c03Run(t *testing.T, c *c03Case) (results []c03Result, log [][3]int, nreq []int, synced bool, htab map[string]string) {
	synced = true
	svc := &c03Services{c: c, byHost: map[string]int{}, attempt: map[[2]int]int{}}
	roots := map[string]string{}
	var servers []*httptest.Server
	for s := 0; s < c.nsvc; s++ {
		uuid := fmt.Sprintf("zzzzz-bi6l4-%015d", s)
		var root string
		if c.net {
			host := fmt.Sprintf("net%d", s)
			srv := httptest.NewServer(svc.handler(host))
			servers = append(servers, srv)
			root = srv.URL
			svc.byHost[host] = s
		} else {
			root = fmt.Sprintf("http://k%d:25107", s)
			svc.byHost[root] = s
		}
		roots[uuid] = root
	}
	defer func() {
		for _, s := range servers {
			s.CloseClientConnections()
			s.Close()
		}
	}()
	rootIdx := map[string]int{}
	for u, r := range roots {
		var s int
		fmt.Sscanf(u, "zzzzz-bi6l4-%d", &s)
		rootIdx[r] = s
	}
	kc := &KeepClient{Arvados: &arvadosclient.ArvadosClient{ApiToken: "tok"}, Want_replicas: 1, Retries: c.retries, BlockCache: &BlockCache{}}
	if c.net {
		kc.HTTPClient = &http.Client{Transport: &http.Transport{DisableKeepAlives: true}, Timeout: 10 * time.Second}
	} else {
		kc.HTTPClient = svc
	}
	kc.SetServiceRoots(roots, roots, nil)
	for _, b := range c.blocks {
		b.order = nil
		for _, r := range NewRootSorter(kc.LocalRoots(), b.loc[:32]).GetSortedRoots() {
			b.order = append(b.order, rootIdx[r])
		}
	}
	htab = map[string]string{}
	addH := func(b []byte) { htab[string(b)] = fmt.Sprintf("%x", md5.Sum(b)) }
	for _, b := range c.blocks {
		addH(b.content)
		for _, row := range b.script {
			for _, r := range row {
				if !r.conn && r.status == 200 {
					d, _ := r.stream()
					addH(d)
				}
			}
		}
	}
	var marks []int
	readAt := func(b *c03Block, n, off int) (string, string) {
		p := make([]byte, n)
		m, err := kc.ReadAt(b.loc, p, off)
		return string(p[:m]), c03Err(err)
	}
	for _, o := range c.ops {
		b := c.blocks[o.blk]
		svc.mtx.Lock()
		svc.writerTo = o.writerTo
		svc.chunk = o.chunk
		// the requests this operation causes = growth of the request log while it runs (all its requests are over
		// when it returns: the cache's fetch goroutine finishes before any waiter is released, Get returns after
		// its last request, and the services log a request before they answer it)
		marks = append(marks, len(svc.log))
		svc.mtx.Unlock()
		switch o.kind {
		case 0:
			rdr, size, url, err := kc.Get(b.loc)
			if err != nil {
				results = append(results, c03Result{fmt.Sprintf("RGet %s 0 0 \"\" ENil ENil", c03Err(err)), "get: " + c03Err(err)})
				break
			}
			srvIdx := 0
			if url != "" {
				srvIdx = rootIdx[strings.TrimSuffix(url, "/"+b.loc)]
			}
			var got []byte
			rerr := "ENil"
			switch o.mode {
			case 0:
				var e error
				got, e = c03ReadAll(rdr, 512)
				rerr = c03Err(e)
				if e == nil {
					rerr = "EEOF" // ReadAll reports a clean EOF as nil
				}
			case 1:
				buf := make([]byte, o.k)
				n, e := io.ReadFull(rdr, buf)
				got, rerr = buf[:n], c03Err(e)
			case 2:
				var w bytes.Buffer
				_, e := io.Copy(&w, rdr)
				got, rerr = w.Bytes(), c03Err(e)
			}
			cerr := c03Err(rdr.Close())
			addH(got)
			results = append(results, c03Result{fmt.Sprintf("RGet ENil %d %d %s %s %s", size, srvIdx, c.str(got), rerr, cerr),
				fmt.Sprintf("get ok size=%d from=%d read=%d bytes %s close=%s", size, srvIdx, len(got), rerr, cerr)})
		case 1:
			got, e := readAt(b, o.n, o.off)
			if o.off == 0 {
				addH([]byte(got)) // a read from offset 0 may be the whole block: its digest is judged
			}
			results = append(results, c03Result{fmt.Sprintf("RRead %s %s", c.str([]byte(got)), e), fmt.Sprintf("readat: %d bytes %s", len(got), e)})
		case 2:
			// k concurrent readers of one block: hold the services' answers until all readers wait for the fetch
			hold := make(chan struct{})
			svc.mtx.Lock()
			svc.hold, svc.held = hold, 0
			svc.mtx.Unlock()
			type rr struct{ got, e string }
			out := make([]rr, o.k)
			var wg sync.WaitGroup
			done := make(chan struct{})
			for j := 0; j < o.k; j++ {
				wg.Add(1)
				go func(j int) {
					defer wg.Done()
					out[j].got, out[j].e = readAt(b, o.n, o.off)
				}(j)
			}
			go func() { wg.Wait(); close(done) }()
			finished := func() bool {
				select {
				case <-done:
					return true
				default:
					return false
				}
			}
			ok := c03Wait(3*time.Second, func() bool {
				if finished() {
					return true // served from the cache: no fetch
				}
				svc.mtx.Lock()
				held := svc.held
				svc.mtx.Unlock()
				return held > 0 && c03ParkedReaders() == o.k
			})
			if !ok {
				synced = false
			}
			svc.mtx.Lock()
			svc.hold = nil
			svc.mtx.Unlock()
			close(hold)
			<-done
			parts := make([]string, o.k)
			for j := range out {
				if o.off == 0 {
					addH([]byte(out[j].got))
				}
				parts[j] = fmt.Sprintf("(%s, %s)", c.str([]byte(out[j].got)), out[j].e)
			}
			results = append(results, c03Result{"RGroup " + gList(parts), fmt.Sprintf("group of %d: %d bytes %s", o.k, len(out[0].got), out[0].e)})
		case 3:
			// manifest: one stream, the blocks used, one token per segment
			var locs []string
			pos := map[int]int{}
			p := 0
			for _, s := range o.segs {
				if _, ok := pos[s[0]]; !ok {
					pos[s[0]] = p
					locs = append(locs, c.blocks[s[0]].loc)
					p += len(c.blocks[s[0]].content)
				}
			}
			mt := ". " + strings.Join(locs, " ")
			for _, s := range o.segs {
				mt += fmt.Sprintf(" %d:%d:f", pos[s[0]]+s[1], s[2])
			}
			mt += "\n"
			f, err := kc.CollectionFileReader(map[string]interface{}{"manifest_text": mt}, "f")
			if err != nil {
				t.Fatalf("CollectionFileReader(%q): %v", mt, err)
			}
			if o.off > 0 {
				if _, err := f.Seek(int64(o.off), io.SeekStart); err != nil {
					t.Fatalf("Seek: %v", err)
				}
			}
			var got []byte
			var e error
			if o.k == 0 {
				got, e = c03ReadAll(f, 512)
			} else {
				// read with a small buffer, so that reads end inside segments as well as at their ends
				got, e = c03ReadAll(f, o.k)
			}
			f.Close()
			results = append(results, c03Result{fmt.Sprintf("RFile %s %s", c.str(got), c03Err(e)), fmt.Sprintf("file: %d bytes %s (%s)", len(got), c03Err(e), strings.TrimSpace(mt))})
		}
	}
	svc.mtx.Lock()
	log = append(log, svc.log...)
	marks = append(marks, len(svc.log))
	for k := 0; k+1 < len(marks); k++ {
		nreq = append(nreq, marks[k+1]-marks[k])
	}
	if svc.unknown > 0 {
		synced = false
	}
	svc.mtx.Unlock()
	return
}

func TestVerifC03(t *testing.T) {
	seed := vSeed()
	n := vEnvInt("VERIF_N", 100)
	only := vOnly()
	stage := os.Getenv("VERIF_STAGE")
	if stage == "" {
		stage = "c03"
	}
	cs := vNewCases(stage)
	for i := 0; i < n; i++ {
		if only >= 0 && i != only {
			continue
		}
		r := vCaseRand(seed, i)
		c := c03Gen(t, r, i)
		results, log, nreq, synced, htab := c03Run(t, c)
		// ---- Gallina ----
		bl := make([]string, len(c.blocks))
		for bi, b := range c.blocks {
			rows := make([]string, len(b.script))
			for s, row := range b.script {
				rs := make([]string, len(row))
				for a, rp := range row {
					rs[a] = c.respTerm(rp)
				}
				rows[s] = gList(rs)
			}
			bl[bi] = fmt.Sprintf("B %s c%d %s %s\n      %s", gStr(b.loc), bi, gBool(b.consistent), c03Ints(b.order), gList(rows))
		}
		var ht []string
		for k, v := range htab {
			ht = append(ht, fmt.Sprintf("(%s, %s)", c.str([]byte(k)), gStr(v)))
		}
		sortStrings(ht)
		ops := make([]string, len(c.ops))
		for k, o := range c.ops {
			ops[k] = c.opTerm(o)
		}
		rs := make([]string, len(results))
		ds := make([]string, len(results))
		for k, x := range results {
			rs[k] = x.term
			ds[k] = x.desc
		}
		lg := make([]string, len(log))
		for k, l := range log {
			lg[k] = fmt.Sprintf("(%d, %d, %d)", l[0], l[1], l[2])
		}
		term := fmt.Sprintf("(%s\n  {| c_in := {| i_retries := %d; i_blocks := %s;\n    i_htab := %s;\n    i_ops := %s |};\n   c_obs := {| ob_res := %s;\n    ob_log := %s; ob_nreq := %s; ob_sync := %s |} |})",
			c.lets(), c.retries, gList(bl), gList(ht), gList(ops), gList(rs), gList(lg), c03Ints(nreq), gBool(synced))
		var bd []map[string]interface{}
		for _, b := range c.blocks {
			var sc [][]string
			for _, row := range b.script {
				var rr []string
				for _, rp := range row {
					rr = append(rr, rp.beh)
				}
				sc = append(sc, rr)
			}
			bd = append(bd, map[string]interface{}{"locator": b.loc, "size": len(b.content), "order": b.order, "script": sc, "consistent": b.consistent,
				"size_hint": size03(b.loc), "every_200_answer_declares_length": c03DeclaredOnly(b)})
		}
		desc := map[string]interface{}{"index": i, "services": c.nsvc, "retries": c.retries, "blocks": bd, "ops": ops, "results": ds,
			"requests": log, "requests_per_operation": nreq, "loopback": c.net, "concurrent_readers_synchronised": synced}
		tags := append([]string(nil), c.tags...)
		for _, o := range c.ops {
			tags = append(tags, "op="+[]string{"get", "readat", "concurrent-readat", "file"}[o.kind])
			if o.chunk > 0 && !c.net {
				tags = append(tags, "body-read-in-small-pieces")
			}
		}
		for _, b := range c.blocks {
			for _, row := range b.script {
				if len(row) > 0 {
					tags = append(tags, "first-answer="+row[0].beh)
				}
			}
		}
		if !synced {
			tags = append(tags, "concurrent-readers-not-synchronised")
		}
		for k, d := range ds {
			for _, cl := range []string{"ENotFound", "ETemp", "EPerm"} {
				if strings.Contains(d, cl) {
					tags = append(tags, "failed-read="+cl)
					if k < len(nreq) && nreq[k] > 2*c.nsvc {
						tags = append(tags, "failed-read-after-3-or-more-rounds")
					}
				}
			}
		}
		cs.Add(i, term, desc, len(log) >= 2, tags...)
	}
	cs.Write()
}

func sortStrings(xs []string) {
	for i := 1; i < len(xs); i++ {
		for j := i; j > 0 && xs[j] < xs[j-1]; j-- {
			xs[j], xs[j-1] = xs[j-1], xs[j]
		}
	}
}
