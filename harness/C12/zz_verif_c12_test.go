//go:build verif

package keepclient

import (
	"bytes"
	"crypto/md5"
	"encoding/json"
	"fmt"
	"io"
	"io/ioutil"
	"net/http"
	"os"
	"sort"
	"strings"
	"sync"
	"testing"
	"time"

	"git.arvados.org/arvados.git/sdk/go/arvadosclient"
)

type c12Stub struct {
	mtx  sync.Mutex
	reqs []string
	code int
}

func (s *c12Stub) Do(req *http.Request) (*http.Response, error) {
	s.mtx.Lock()
	s.reqs = append(s.reqs, req.URL.Scheme+"://"+req.URL.Host)
	s.mtx.Unlock()
	if req.Body != nil {
		io.Copy(ioutil.Discard, req.Body)
		req.Body.Close()
	}
	return &http.Response{StatusCode: s.code, Status: fmt.Sprint(s.code), Body: ioutil.NopCloser(strings.NewReader("no")), Header: http.Header{}, Request: req}, nil
}

func c12UUID(r *vRand, kind int, cluster string, shared []string) string {
	const al = "0123456789abcdefghijklmnopqrstuvwxyz"
	rs := func(n int) string {
		b := make([]byte, n)
		for i := range b {
			b[i] = al[r.Intn(len(al))]
		}
		return string(b)
	}
	switch kind {
	case 0: // well-formed 27 chars
		return cluster + "-bi6l4-" + rs(15)
	case 1: // 27 chars, suffix shared with another service of a different cluster prefix (tie)
		return rs(5) + "-bi6l4-" + shared[r.Intn(len(shared))]
	case 2: // short
		return rs(1 + r.Intn(10))
	default: // long
		return cluster + "-bi6l4-" + rs(16+r.Intn(6))
	}
}

// one item of a keep_services list (discovery stratum)
type c12Item struct {
	UUID string `json:"uuid"`
	Host string `json:"service_host"`
	Port int    `json:"service_port"`
	SSL  bool   `json:"service_ssl_flag"`
	Type string `json:"service_type"`
	RO   bool   `json:"read_only"`
}

func c12JSON(l []c12Item) string {
	if l == nil {
		l = []c12Item{}
	}
	j, _ := json.Marshal(map[string]interface{}{"items": l})
	return string(j)
}

func c12ListTerm(l []c12Item) string {
	xs := make([]string, len(l))
	for i, s := range l {
		xs[i] = fmt.Sprintf("D %s %s %d%%N %s %s %s", gStr(s.UUID), gStr(s.Host), s.Port, gBool(s.SSL), gStr(s.Type), gBool(s.RO))
	}
	return gList(xs)
}

// an earlier list the client held before the final one: a variation of it
func c12Earlier(r *vRand, final []c12Item, k int) ([]c12Item, string) {
	l := append([]c12Item(nil), final...)
	kind := r.Pick("flip-ro", "flip-ro", "all-writable", "all-readonly", "remove", "add", "move-url", "same", "other")
	switch kind {
	case "flip-ro":
		any := false
		for i := range l {
			if r.Chance(1, 2) {
				l[i].RO = !l[i].RO
				any = true
			}
		}
		if !any {
			i := r.Intn(len(l))
			l[i].RO = !l[i].RO
		}
	case "all-writable":
		for i := range l {
			l[i].RO = false
		}
	case "all-readonly":
		for i := range l {
			l[i].RO = true
		}
	case "remove":
		if len(l) > 1 {
			i := r.Intn(len(l))
			l = append(l[:i:i], l[i+1:]...)
		}
	case "add":
		l = append(l, c12Item{UUID: c12UUID(r, 0, "zzzzz", nil), Host: fmt.Sprintf("old%d.zzzzz.example", k), Port: 25107, Type: "disk", RO: r.Bool()})
	case "move-url":
		i := r.Intn(len(l))
		l[i].Host = fmt.Sprintf("moved%d.zzzzz.example", k)
	case "other":
		l = nil
		for i := 0; i < 1+r.Intn(3); i++ {
			l = append(l, c12Item{UUID: c12UUID(r, 0, "wwwww", nil), Host: fmt.Sprintf("other%d-%d.example", k, i), Port: 25107, Type: "disk", RO: r.Chance(1, 3)})
		}
	}
	return l, kind
}

// The API side of service discovery without sockets: an http.RoundTripper that answers
// GET /arvados/v1/keep_services/accessible with the list currently set.  One ApiServer name for the whole
// test process, so that keepclient's per-API-server cache entry (and its poll goroutine) is shared.
type c12APITransport struct {
	mtx   sync.Mutex
	body  string
	calls int
}

func (a *c12APITransport) set(body string) {
	a.mtx.Lock()
	a.body = body
	a.mtx.Unlock()
}

func (a *c12APITransport) RoundTrip(req *http.Request) (*http.Response, error) {
	a.mtx.Lock()
	b := a.body
	a.calls++
	a.mtx.Unlock()
	code := 200
	if !strings.HasSuffix(req.URL.Path, "/keep_services/accessible") {
		code, b = 404, "{}"
	}
	return &http.Response{StatusCode: code, Status: fmt.Sprint(code), Header: http.Header{"Content-Type": {"application/json"}},
		Body: ioutil.NopCloser(strings.NewReader(b)), Request: req}, nil
}

var c12API = &c12APITransport{}
var c12Arv = &arvadosclient.ArvadosClient{ApiServer: "verif-c12-api.invalid", ApiToken: "tok", Client: &http.Client{Transport: c12API}}

func c12Copy(m map[string]string) map[string]string {
	o := map[string]string{}
	for k, v := range m {
		o[k] = v
	}
	return o
}

func TestVerifC12(t *testing.T) {
	seed := vSeed()
	n := vEnvInt("VERIF_N", 200)
	only := vOnly()
	stage := os.Getenv("VERIF_STAGE")
	if stage == "" {
		stage = "c12"
	}
	cs := vNewCases(stage)
	apiErrs := 0 // discovery through the API path failed (each failure costs discoverServices' one-minute timeout)
	for i := 0; i < n; i++ {
		if only >= 0 && i != only {
			continue
		}
		r := vCaseRand(seed, i)
		nsvc := 1 + r.Intn(8)
		if r.Chance(1, 8) {
			nsvc = 1 + r.Intn(32)
		}
		shared := []string{"sharedsuffix0001", "sharedsuffix0002"}
		for k := range shared {
			shared[k] = shared[k][:15]
		}
		local := map[string]string{}
		writable := map[string]string{}
		balroots := map[string]string{}
		tieMode := r.Chance(1, 10)
		// discovery stratum: the roots come from keep_services lists given to LoadKeepServicesFromJSON (one or more,
		// the last one in force) instead of SetServiceRoots; a quarter of the listed services is read-only
		disc := r.Chance(1, 2)
		var final []c12Item
		var lists [][]c12Item
		var discTags []string
		discErr := ""
		for len(local) < nsvc {
			kind := 0
			switch x := r.Intn(20); {
			case x == 0:
				kind = 2
			case x == 1:
				kind = 3
			case x < 6 && tieMode:
				kind = 1
			}
			u := c12UUID(r, kind, "zzzzz", shared)
			if _, dup := local[u]; dup {
				continue
			}
			root := fmt.Sprintf("http://keep%d.zzzzz.example:25107", len(local))
			final = append(final, c12Item{UUID: u, Host: fmt.Sprintf("keep%d.zzzzz.example", len(local)), Port: 25107, Type: r.Pick("disk", "disk", "proxy")})
			local[u] = root
			balroots[u] = u
			if r.Intn(4) != 0 {
				writable[u] = root
			} else {
				final[len(final)-1].RO = true
			}
		}
		gw := map[string]string{}
		var gwUUIDs []string
		for k := 0; k < r.Intn(3); k++ {
			u := c12UUID(r, 0, "yyyyy", shared)
			gw[u] = fmt.Sprintf("http://gw%d.yyyyy.example:25107", k)
			gwUUIDs = append(gwUUIDs, u)
		}
		stub := &c12Stub{code: 404}
		kc := &KeepClient{Arvados: &arvadosclient.ArvadosClient{ApiToken: "tok"}, Want_replicas: 1, Retries: 0, HTTPClient: stub, BlockCache: &BlockCache{}}
		if disc {
			if nsvc > 1 && r.Chance(1, 10) {
				// an item repeating an earlier item's URL under another uuid: skipped by loadKeepServers
				d := final[r.Intn(len(final))]
				d.UUID = c12UUID(r, 0, "zzzzz", shared)
				d.RO = r.Bool()
				final = append(final, d)
				discTags = append(discTags, "duplicate-url")
			}
			ne := []int{0, 0, 1, 1, 1, 2}[r.Intn(6)]
			for k := 0; k < ne; k++ {
				l, kind := c12Earlier(r, final, k)
				lists = append(lists, l)
				discTags = append(discTags, "earlier-list="+kind)
			}
			lists = append(lists, final)
			discTags = append(discTags, "discovery", fmt.Sprintf("lists-loaded=%d", len(lists)))
			// half of the discovery cases go through the API path: discoverServices -> cached poller ->
			// loadKeepServers on every operation, a new list being picked up after RefreshServiceDiscovery
			viaAPI := r.Chance(1, 2)
			if viaAPI && apiErrs >= 2 {
				// two concrete failing inputs are enough; do not spend a minute per case
				viaAPI = false
				discTags = append(discTags, "api-path-disabled-after-errors")
			}
			if viaAPI {
				kc.Arvados = c12Arv
				discTags = append(discTags, "discovery-via-api-poll")
			} else {
				discTags = append(discTags, "discovery-via-json")
			}
			for k, l := range lists {
				if viaAPI {
					c12API.set(c12JSON(l))
					// (RefreshServiceDiscovery is a no-op before the first discovery of this process.)  Not returning
					// within a minute — the margin discoverServices itself uses — is a judged observation.
					refreshed := make(chan struct{})
					go func() { kc.RefreshServiceDiscovery(); close(refreshed) }()
					var err error
					select {
					case <-refreshed:
						err = kc.discoverServices()
					case <-time.After(time.Minute):
						err = fmt.Errorf("RefreshServiceDiscovery did not return within a minute")
					}
					if err != nil {
						// judged, not fatal: the client ends up without (or with stale) roots for this list
						discErr = fmt.Sprintf("discoverServices (list %d): %v", k, err)
						apiErrs++
						kc.disableDiscovery = true // do not wait another minute in every later call of this case
						break
					}
				} else if err := kc.LoadKeepServicesFromJSON(c12JSON(l)); err != nil {
					t.Fatalf("LoadKeepServicesFromJSON: %v", err)
				}
				if k < len(lists)-1 {
					// the client is used between two lists: a read that misses everywhere
					kc.Get(fmt.Sprintf("%x+3", md5.Sum([]byte(fmt.Sprintf("warm-%d-%d", i, k)))))
				}
			}
			stub.mtx.Lock()
			stub.reqs = nil
			stub.mtx.Unlock()
			// what the client uses from now on (read back through the package API)
			local, writable, gw = c12Copy(kc.LocalRoots()), c12Copy(kc.WritableLocalRoots()), c12Copy(kc.GatewayRoots())
			balroots = map[string]string{}
			for u := range local {
				balroots[u] = u
			}
			gwUUIDs = nil
			for u := range gw {
				gwUUIDs = append(gwUUIDs, u)
			}
			sort.Strings(gwUUIDs)
			if len(local) == 0 && discErr == "" {
				t.Fatalf("case %d: no local roots after discovery", i)
			}
		} else {
			discTags = append(discTags, "set-service-roots")
			if r.Chance(1, 3) {
				// as after discovery: every local service is also a gateway root
				for u, root := range local {
					gw[u] = root
					gwUUIDs = append(gwUUIDs, u)
				}
				sort.Strings(gwUUIDs)
				discTags = append(discTags, "locals-are-gateways")
			}
		}
		// 27-character uuids of local services: candidates for +K@ hints that name a listed service
		var localHintable, roHintable []string
		for u := range local {
			if len(u) == 27 {
				localHintable = append(localHintable, u)
				if _, w := writable[u]; !w {
					roHintable = append(roHintable, u)
				}
			}
		}
		sort.Strings(localHintable)
		sort.Strings(roHintable)
		hash := fmt.Sprintf("%x", md5.Sum([]byte(fmt.Sprintf("blk-%d-%d", seed, i))))
		loc := hash
		nhints := 0
		hintLocal := 0
		for k := 0; k < r.Intn(5); k++ {
			switch r.Intn(11) {
			case 8, 9:
				if len(localHintable) > 0 {
					loc += "+K@" + localHintable[r.Intn(len(localHintable))]
					hintLocal++
				}
			case 10:
				if len(roHintable) > 0 {
					loc += "+K@" + roHintable[r.Intn(len(roHintable))]
					hintLocal++
				}
			case 0:
				loc += fmt.Sprintf("+%d", r.Intn(100000))
			case 1:
				loc += "+K@" + r.Pick("abcde", "zzzzz", "q1w2e")
				nhints++
			case 2:
				if len(gwUUIDs) > 0 {
					loc += "+K@" + gwUUIDs[r.Intn(len(gwUUIDs))]
					nhints++
				}
			case 3:
				loc += "+K@" + c12UUID(r, 0, "xxxxx", shared) // unknown gateway
			case 4:
				loc += "+K@" + r.Pick("abcd", "abcdef", "", "zzzzz-bi6l4-short")
			case 5:
				loc += "+Afoo@12345678"
			case 6:
				loc += "+Kabcde"
			case 7:
				loc += "+k@abcde"
			}
		}

		// iteration order as seen by this run of NewRootSorter is not observable; record the map in
		// one (arbitrary) order: the theorems say the order does not matter.
		var uu []string
		for u := range local {
			uu = append(uu, u)
		}
		keep := make([]bool, len(uu))
		wr := make([]bool, len(uu))
		sub := map[string]string{}
		dropOne := 0
		if len(uu) > 0 {
			dropOne = r.Intn(len(uu))
		}
		for k, u := range uu {
			keep[k] = k != dropOne
			if r.Chance(1, 6) {
				keep[k] = r.Bool()
			}
			if keep[k] {
				sub[u] = local[u]
			}
			_, wr[k] = writable[u]
		}

		oSorted := NewRootSorter(local, hash).GetSortedRoots()
		oBal := NewRootSorter(balroots, hash).GetSortedRoots()
		oSub := NewRootSorter(sub, hash).GetSortedRoots()

		if !disc {
			kc.SetServiceRoots(local, writable, gw)
		}
		oGet := kc.getSortedRoots(loc)
		_, _, _, err := kc.Get(loc)
		if err == nil {
			t.Fatalf("Get unexpectedly succeeded")
		}
		oGetReq := append([]string(nil), stub.reqs...)
		stub.reqs = nil
		stub.code = 403
		data := []byte("x")
		_, _, err = kc.putReplicas(hash, func() io.Reader { return bytes.NewReader(data) }, 1)
		if err == nil {
			t.Fatalf("put unexpectedly succeeded")
		}
		stub.mtx.Lock()
		oPutReq := append([]string(nil), stub.reqs...)
		stub.mtx.Unlock()

		svcs := make([]string, len(uu))
		for k, u := range uu {
			svcs[k] = "S " + gStr(u) + " " + gStr(local[u])
		}
		gws := []string{}
		for _, u := range gwUUIDs {
			gws = append(gws, "S "+gStr(u)+" "+gStr(gw[u]))
		}
		lts := []string{}
		for _, l := range lists {
			lts = append(lts, c12ListTerm(l))
		}
		term := fmt.Sprintf("{| c_hash := %s; c_lists := %s; c_local := %s; c_writable := %s; c_keep := %s; c_gw := %s; c_loc := %s;\n   o_sorted := %s; o_bal := %s; o_sub := %s; o_get := %s; o_getreq := %s; o_putreq := %s |}",
			gStr(hash), gList(lts), gList(svcs), gBools(wr), gBools(keep), gList(gws), gStr(loc),
			gStrs(oSorted), gStrs(oBal), gStrs(oSub), gStrs(oGet), gStrs(oGetReq), gStrs(oPutReq))
		desc := map[string]interface{}{"index": i, "hash": hash, "discovery_lists": lists, "discovery_error": discErr, "local": local, "writable": writable, "gateways": gw, "locator": loc,
			"sorted": oSorted, "balancer": oBal, "subset": oSub, "getSortedRoots": oGet, "get_requests": oGetReq, "put_requests": oPutReq}
		tags := []string{fmt.Sprintf("services=%d", bucket(len(uu))), fmt.Sprintf("hints=%d", nhints), fmt.Sprintf("hints-naming-local-service=%d", hintLocal)}
		tags = append(tags, discTags...)
		if discErr != "" {
			tags = append(tags, "discovery-error")
		}
		if tieMode {
			tags = append(tags, "shared-suffix")
		}
		cs.Add(i, term, desc, len(uu) >= 2, tags...)
	}
	cs.Write()
}

func bucket(n int) int {
	switch {
	case n <= 4:
		return n
	case n <= 8:
		return 8
	case n <= 16:
		return 16
	}
	return 32
}
