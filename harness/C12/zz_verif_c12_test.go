//go:build verif

package keepclient

import (
	"bytes"
	"crypto/md5"
	"fmt"
	"io"
	"io/ioutil"
	"net/http"
	"os"
	"strings"
	"sync"
	"testing"

	"git.arvados.org/arvados.git/sdk/go/arvadosclient"
)

type c12Stub struct {
	mtx  sync.Mutex
	reqs []string
	code int
}

func (s *c12Stub) Do(req *http.Request) (*http.Response, error) {
	s.mtx.Lock()
	s.reqs = append(s.reqs, req.URL.Scheme+"://"+req.URL.Host)
	s.mtx.Unlock()
	if req.Body != nil {
		io.Copy(ioutil.Discard, req.Body)
		req.Body.Close()
	}
	return &http.Response{StatusCode: s.code, Status: fmt.Sprint(s.code), Body: ioutil.NopCloser(strings.NewReader("no")), Header: http.Header{}, Request: req}, nil
}

func c12UUID(r *vRand, kind int, cluster string, shared []string) string {
	const al = "0123456789abcdefghijklmnopqrstuvwxyz"
	rs := func(n int) string {
		b := make([]byte, n)
		for i := range b {
			b[i] = al[r.Intn(len(al))]
		}
		return string(b)
	}
	switch kind {
	case 0: // well-formed 27 chars
		return cluster + "-bi6l4-" + rs(15)
	case 1: // 27 chars, suffix shared with another service of a different cluster prefix (tie)
		return rs(5) + "-bi6l4-" + shared[r.Intn(len(shared))]
	case 2: // short
		return rs(1 + r.Intn(10))
	default: // long
		return cluster + "-bi6l4-" + rs(16+r.Intn(6))
	}
}

func TestVerifC12(t *testing.T) {
	seed := vSeed()
	n := vEnvInt("VERIF_N", 200)
	only := vOnly()
	stage := os.Getenv("VERIF_STAGE")
	if stage == "" {
		stage = "c12"
	}
	cs := vNewCases(stage)
	for i := 0; i < n; i++ {
		if only >= 0 && i != only {
			continue
		}
		r := vCaseRand(seed, i)
		nsvc := 1 + r.Intn(8)
		if r.Chance(1, 8) {
			nsvc = 1 + r.Intn(32)
		}
		shared := []string{"sharedsuffix0001", "sharedsuffix0002"}
		for k := range shared {
			shared[k] = shared[k][:15]
		}
		local := map[string]string{}
		writable := map[string]string{}
		balroots := map[string]string{}
		tieMode := r.Chance(1, 10)
		for len(local) < nsvc {
			kind := 0
			switch x := r.Intn(20); {
			case x == 0:
				kind = 2
			case x == 1:
				kind = 3
			case x < 6 && tieMode:
				kind = 1
			}
			u := c12UUID(r, kind, "zzzzz", shared)
			if _, dup := local[u]; dup {
				continue
			}
			root := fmt.Sprintf("http://keep%d.zzzzz.example:25107", len(local))
			local[u] = root
			balroots[u] = u
			if r.Intn(4) != 0 {
				writable[u] = root
			}
		}
		gw := map[string]string{}
		var gwUUIDs []string
		for k := 0; k < r.Intn(3); k++ {
			u := c12UUID(r, 0, "yyyyy", shared)
			gw[u] = fmt.Sprintf("http://gw%d.yyyyy.example:25107", k)
			gwUUIDs = append(gwUUIDs, u)
		}
		hash := fmt.Sprintf("%x", md5.Sum([]byte(fmt.Sprintf("blk-%d-%d", seed, i))))
		loc := hash
		nhints := 0
		for k := 0; k < r.Intn(5); k++ {
			switch r.Intn(8) {
			case 0:
				loc += fmt.Sprintf("+%d", r.Intn(100000))
			case 1:
				loc += "+K@" + r.Pick("abcde", "zzzzz", "q1w2e")
				nhints++
			case 2:
				if len(gwUUIDs) > 0 {
					loc += "+K@" + gwUUIDs[r.Intn(len(gwUUIDs))]
					nhints++
				}
			case 3:
				loc += "+K@" + c12UUID(r, 0, "xxxxx", shared) // unknown gateway
			case 4:
				loc += "+K@" + r.Pick("abcd", "abcdef", "", "zzzzz-bi6l4-short")
			case 5:
				loc += "+Afoo@12345678"
			case 6:
				loc += "+Kabcde"
			case 7:
				loc += "+k@abcde"
			}
		}

		// iteration order as seen by this run of NewRootSorter is not observable; record the map in
		// one (arbitrary) order: the theorems say the order does not matter.
		var uu []string
		for u := range local {
			uu = append(uu, u)
		}
		keep := make([]bool, len(uu))
		wr := make([]bool, len(uu))
		sub := map[string]string{}
		dropOne := r.Intn(len(uu))
		for k, u := range uu {
			keep[k] = k != dropOne
			if r.Chance(1, 6) {
				keep[k] = r.Bool()
			}
			if keep[k] {
				sub[u] = local[u]
			}
			_, wr[k] = writable[u]
		}

		oSorted := NewRootSorter(local, hash).GetSortedRoots()
		oBal := NewRootSorter(balroots, hash).GetSortedRoots()
		oSub := NewRootSorter(sub, hash).GetSortedRoots()

		stub := &c12Stub{code: 404}
		kc := &KeepClient{Arvados: &arvadosclient.ArvadosClient{ApiToken: "tok"}, Want_replicas: 1, Retries: 0, HTTPClient: stub, BlockCache: &BlockCache{}}
		kc.SetServiceRoots(local, writable, gw)
		oGet := kc.getSortedRoots(loc)
		_, _, _, err := kc.Get(loc)
		if err == nil {
			t.Fatalf("Get unexpectedly succeeded")
		}
		oGetReq := append([]string(nil), stub.reqs...)
		stub.reqs = nil
		stub.code = 403
		data := []byte("x")
		_, _, err = kc.putReplicas(hash, func() io.Reader { return bytes.NewReader(data) }, 1)
		if err == nil {
			t.Fatalf("put unexpectedly succeeded")
		}
		stub.mtx.Lock()
		oPutReq := append([]string(nil), stub.reqs...)
		stub.mtx.Unlock()

		svcs := make([]string, len(uu))
		for k, u := range uu {
			svcs[k] = "S " + gStr(u) + " " + gStr(local[u])
		}
		gws := []string{}
		for _, u := range gwUUIDs {
			gws = append(gws, "S "+gStr(u)+" "+gStr(gw[u]))
		}
		term := fmt.Sprintf("{| c_hash := %s; c_local := %s; c_writable := %s; c_keep := %s; c_gw := %s; c_loc := %s;\n   o_sorted := %s; o_bal := %s; o_sub := %s; o_get := %s; o_getreq := %s; o_putreq := %s |}",
			gStr(hash), gList(svcs), gBools(wr), gBools(keep), gList(gws), gStr(loc),
			gStrs(oSorted), gStrs(oBal), gStrs(oSub), gStrs(oGet), gStrs(oGetReq), gStrs(oPutReq))
		desc := map[string]interface{}{"index": i, "hash": hash, "local": local, "writable": writable, "gateways": gw, "locator": loc,
			"sorted": oSorted, "balancer": oBal, "subset": oSub, "getSortedRoots": oGet, "get_requests": oGetReq, "put_requests": oPutReq}
		tags := []string{fmt.Sprintf("services=%d", bucket(len(uu))), fmt.Sprintf("hints=%d", nhints)}
		if tieMode {
			tags = append(tags, "shared-suffix")
		}
		cs.Add(i, term, desc, len(uu) >= 2, tags...)
	}
	cs.Write()
}

func bucket(n int) int {
	switch {
	case n <= 4:
		return n
	case n <= 8:
		return 8
	case n <= 16:
		return 16
	}
	return 32
}
