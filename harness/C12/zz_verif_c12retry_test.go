//go:build verif

// C12, stage c12retry: the probe order of a read across retry rounds.  Scripted services (per service a sequence
// of answers: no response, 408/429/5xx, 404/403/400/401, 200), Retries 0-3; observed is the sequence of requests
// (service, how many requests that service had got before) of one Get or Ask.
package keepclient

import (
	"crypto/md5"
	"errors"
	"fmt"
	"io/ioutil"
	"net/http"
	"os"
	"strings"
	"sync"
	"testing"

	"git.arvados.org/arvados.git/sdk/go/arvadosclient"
)

type c12rStub struct {
	mtx     sync.Mutex
	byRoot  map[string]int
	script  [][]int // status; 0 = no response
	content []byte
	attempt map[int]int
	log     [][2]int
	unknown int
}

func (s *c12rStub) Do(req *http.Request) (*http.Response, error) {
	s.mtx.Lock()
	svc, ok := s.byRoot[req.URL.Scheme+"://"+req.URL.Host]
	if !ok {
		s.unknown++
		s.mtx.Unlock()
		return nil, errors.New("verif stub: unknown host")
	}
	a := s.attempt[svc]
	s.attempt[svc]++
	s.log = append(s.log, [2]int{svc, a})
	st := 0
	if svc < len(s.script) && a < len(s.script[svc]) {
		st = s.script[svc][a]
	}
	s.mtx.Unlock()
	if st == 0 {
		return nil, errors.New("verif stub: connection refused")
	}
	body := []byte("no")
	if st == 200 {
		body = s.content
	}
	return &http.Response{StatusCode: st, Status: fmt.Sprint(st), Header: http.Header{}, ContentLength: int64(len(body)),
		Body: ioutil.NopCloser(strings.NewReader(string(body))), Request: req}, nil
}

func TestVerifC12Retry(t *testing.T) {
	seed := vSeed()
	n := vEnvInt("VERIF_N", 100)
	only := vOnly()
	stage := os.Getenv("VERIF_STAGE")
	if stage == "" {
		stage = "c12retry"
	}
	cs := vNewCases(stage)
	transient := []int{0, 408, 429, 500, 502, 503}
	definitive := []int{404, 404, 404, 403, 400, 401}
	for i := 0; i < n; i++ {
		if only >= 0 && i != only {
			continue
		}
		r := vCaseRand(seed, i)
		nsvc := 1 + r.Intn(5)
		retries := []int{0, 1, 2, 2, 2, 3, 3}[r.Intn(7)]
		content := []byte(fmt.Sprintf("retry-%d-%d", seed, i))
		hash := fmt.Sprintf("%x", md5.Sum(content))
		loc := fmt.Sprintf("%s+%d", hash, len(content))
		roots := map[string]string{}
		stub := &c12rStub{byRoot: map[string]int{}, content: content, attempt: map[int]int{}}
		for s := 0; s < nsvc; s++ {
			root := fmt.Sprintf("http://r%d.example:25107", s)
			roots[c12UUID(r, 0, "zzzzz", nil)] = root
			stub.byRoot[root] = s
		}
		nscripted := nsvc
		tags := []string{fmt.Sprintf("services=%d", nsvc), fmt.Sprintf("retries=%d", retries)}
		if r.Chance(1, 5) {
			// a usable cluster-form hint: one more service, asked first in every round it is still eligible for
			loc += "+K@abcde"
			stub.byRoot["https://keep.abcde.arvadosapi.com"] = nsvc
			nscripted++
			tags = append(tags, "cluster-hint")
		}
		// per service a sequence of answers; strata by shape
		shapes := map[string]int{}
		for s := 0; s < nscripted; s++ {
			var row []int
			k := r.Intn(retries + 2)
			shape := r.Pick("transient-then-definitive", "transient-then-definitive", "always-transient", "definitive-at-once", "transient-then-200", "anything")
			if i%4 == 0 && s == 0 {
				shape = "transient-then-definitive" // the read must go on past round 1 in a quarter of the cases
				k = 1 + r.Intn(retries+1)
			}
			if i%4 == 0 && s == 1 {
				shape = "always-transient"
			}
			shapes[shape]++
			for a := 0; a < retries+2; a++ {
				var st int
				switch shape {
				case "transient-then-definitive":
					st = transient[r.Intn(len(transient))]
					if a >= k {
						st = definitive[r.Intn(len(definitive))]
					}
				case "always-transient":
					st = transient[r.Intn(len(transient))]
				case "definitive-at-once":
					st = definitive[r.Intn(len(definitive))]
				case "transient-then-200":
					st = transient[r.Intn(len(transient))]
					if a >= k {
						st = 200
					}
				default:
					st = append(append([]int{200}, transient...), definitive...)[r.Intn(1+len(transient)+len(definitive))]
				}
				row = append(row, st)
			}
			stub.script = append(stub.script, row)
		}
		for sh, c := range shapes {
			if c > 0 {
				tags = append(tags, "script="+sh)
			}
		}
		kc := &KeepClient{Arvados: &arvadosclient.ArvadosClient{ApiToken: "tok"}, Want_replicas: 1, Retries: retries, HTTPClient: stub, BlockCache: &BlockCache{}}
		kc.SetServiceRoots(roots, roots, nil)
		var order []string
		for _, root := range kc.getSortedRoots(loc) {
			order = append(order, fmt.Sprint(stub.byRoot[root]))
		}
		mode := r.Pick("get", "get", "ask")
		var err error
		if mode == "get" {
			var rdr interface{ Close() error }
			rdr, _, _, err = kc.Get(loc)
			if err == nil {
				rdr.Close()
			}
		} else {
			_, _, err = kc.Ask(loc)
		}
		tags = append(tags, "op="+mode)
		errClass := "nil"
		if err != nil {
			errClass = c03ErrLike(err)
		}
		stub.mtx.Lock()
		probes := make([]string, len(stub.log))
		rounds := 0
		for k, p := range stub.log {
			probes[k] = fmt.Sprintf("(%d, %d)", p[0], p[1])
			if p[1]+1 > rounds {
				rounds = p[1] + 1
			}
		}
		unknown := stub.unknown
		stub.mtx.Unlock()
		if unknown > 0 {
			t.Fatalf("case %d: request to an unknown host", i)
		}
		rows := make([]string, len(stub.script))
		for s, row := range stub.script {
			xs := make([]string, len(row))
			for a, st := range row {
				switch st {
				case 0:
					xs[a] = "ConnErr"
				case 200:
					xs[a] = fmt.Sprintf("ROK %d cc", len(content))
				default:
					xs[a] = fmt.Sprintf("RS %d%%N", st)
				}
			}
			rows[s] = gList(xs)
		}
		term := fmt.Sprintf("(let cc := %s in {| r_retries := %d; r_loc := %s; r_order := %s; r_script := %s;\n   o_probes := %s |})",
			gStr(string(content)), retries, gStr(loc), gList(order), gList(rows), gList(probes))
		desc := map[string]interface{}{"index": i, "retries": retries, "locator": loc, "first_round_order": order, "script_status_per_service_per_attempt": stub.script,
			"operation": mode, "probes_service_attempt": stub.log, "error_class": errClass}
		tags = append(tags, fmt.Sprintf("rounds-walked=%d", rounds), "result="+errClass)
		cs.Add(i, term, desc, len(stub.log) >= 2, tags...)
	}
	cs.Write()
}

// error class of a failed read (description only)
func c03ErrLike(err error) string {
	if err == BlockNotFound {
		return "BlockNotFound"
	}
	var nf *ErrNotFound
	if errors.As(err, &nf) {
		if nf.Temporary() {
			return "ErrNotFound(temporary)"
		}
		return "ErrNotFound(permanent)"
	}
	return "other"
}
