module github.com/msteinert/pam

go 1.13
