// Pure-Go stand-in for github.com/msteinert/pam (cgo, needs libpam headers
// that are absent in this sandbox).  Only the API surface that
// lib/controller/localdb/login_pam.go compiles against.  Every call fails.
package pam


import "errors"

type Style int

const (
	PromptEchoOff Style = iota + 1
	PromptEchoOn
	ErrorMsg
	TextInfo
)

type Item int

const (
	Service Item = iota + 1
	User
)

type Flags int

const (
	Silent Flags = 1 << iota
	DisallowNullAuthtok
)

type Transaction struct{}

func StartFunc(service, user string, handler func(Style, string) (string, error)) (*Transaction, error) {
	return nil, errors.New("pam stub: not available")
}
func (t *Transaction) Authenticate(f Flags) error        { return errors.New("pam stub") }
func (t *Transaction) AcctMgmt(f Flags) error            { return errors.New("pam stub") }
func (t *Transaction) SetCred(f Flags) error             { return errors.New("pam stub") }
func (t *Transaction) GetItem(i Item) (string, error)    { return "", errors.New("pam stub") }
