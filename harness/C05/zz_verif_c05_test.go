//go:build verif

package main

// C05 harness: drives the real cleanupMounts / setupLookupTables / balanceBlock on generated
// layouts and prints one Gallina `case` per layout (model: coq/model/C05_model.v, evaluator:
// coq/model/C05_run.v).  The rendezvous rank of the services and the rendezvousLess order of the
// device IDs are taken from the real code and handed to the model.
//
// TestVerifC05  — stratified random layouts (strata follow the case split of the proofs).
// TestVerifC05X — exhaustive small scopes (mixed-radix enumeration; sampled with a stride when
//                 VERIF_N is smaller than the scope).

import (
	"bytes"
	"encoding/json"
	"fmt"
	"io/ioutil"
	"os"
	"sort"
	"strings"
	"testing"

	"git.arvados.org/arvados.git/sdk/go/arvados"
	"git.arvados.org/arvados.git/sdk/go/keepclient"
	"github.com/prometheus/client_golang/prometheus"
	"github.com/sirupsen/logrus"
)

// sorted: class id = index; "default" = 1; "zzz" is never offered by a mount (only collections name it)
var c05ClassPool = []string{"archive", "default", "special", "zzz"}

var c05Metrics = newMetrics(prometheus.NewRegistry())

// a collection as the balancer sees it (stage c05coll: Desired is derived by the real addCollection)
type c05Coll struct {
	classes []string // storage_classes_desired, in order
	repl    *int     // replication_desired (nil = null)
	refs    bool     // references the block under test (otherwise only the other block)
}

const c05Dflt = 1
const c05MinMtime = 100

type c05Mount struct {
	srv     int
	dev     string // "" blank
	ro      bool
	repl    int
	classes []string // keys of StorageClasses (nil = none)
	has     bool     // a replica is seen through this mount (if it survives cleanupMounts)
	mtime   int64
	dup     bool // listed twice in blk.Replicas (second entry mtime+1)
}

type c05Layout struct {
	nsrv    int
	srvRO   []bool
	mounts  []c05Mount
	desired map[string]int
	blkid   arvados.SizedDigest
	shuffle *vRand // order of blk.Replicas (nil = mount order)
	// stage c05coll: when colls != nil, `desired` is ignored; replicas go through BlockStateMap.AddReplicas,
	// collections through addCollection, and the change sets are computed by ComputeChangeSets
	colls   []c05Coll
	defRepl int
}

func c05SrvUUID(i int) string { return fmt.Sprintf("zzzzz-bi6l4-%015x", i) }

func c05Blk(k uint64) arvados.SizedDigest {
	return arvados.SizedDigest(fmt.Sprintf("%016x%016x+1", k*0x9E3779B97F4A7C15+11, k*0xBF58476D1CE4E5B9+7))
}

// rank[i] = position of service i in the real rendezvous order for blkid
func c05Ranks(nsrv int, blkid arvados.SizedDigest) []int {
	roots := map[string]string{}
	for i := 0; i < nsrv; i++ {
		roots[c05SrvUUID(i)] = c05SrvUUID(i)
	}
	uuids := keepclient.NewRootSorter(roots, string(blkid[:32])).GetSortedRoots()
	rank := make([]int, nsrv)
	for pos, u := range uuids {
		for i := 0; i < nsrv; i++ {
			if c05SrvUUID(i) == u {
				rank[i] = pos
			}
		}
	}
	return rank
}

// c05Resize gives a block another size hint: the empty block under its real name, another hash with +0, small and
// maximal sizes (only the first 32 characters matter for rendezvous rank and device order)
func c05Resize(blk arvados.SizedDigest, r *vRand) arvados.SizedDigest {
	switch r.Intn(8) {
	case 0:
		return arvados.SizedDigest("d41d8cd98f00b204e9800998ecf8427e+0")
	case 1:
		return arvados.SizedDigest(string(blk[:32]) + "+0")
	case 2:
		return arvados.SizedDigest(string(blk[:32]) + "+67108864")
	case 3:
		return arvados.SizedDigest(string(blk[:32]) + "+3")
	}
	return blk
}

var c05IdentCache = map[int]arvados.SizedDigest{}

// a block id for which service i has rendezvous position i (servers are interchangeable apart from
// their rank, so exhaustive scopes fix the rank order)
func c05IdentityBlk(nsrv int) arvados.SizedDigest {
	if b, ok := c05IdentCache[nsrv]; ok {
		return b
	}
	for k := uint64(1); ; k++ {
		b := c05Blk(k)
		ok := true
		for i, r := range c05Ranks(nsrv, b) {
			if r != i {
				ok = false
			}
		}
		if ok {
			c05IdentCache[nsrv] = b
			return b
		}
	}
}

func c05Ints(xs []int) string {
	s := make([]string, len(xs))
	for i, x := range xs {
		s[i] = fmt.Sprint(x)
	}
	return "[" + strings.Join(s, "; ") + "]"
}

type c05Pair struct{ a, b int }

func c05Pairs(xs []c05Pair) string {
	s := make([]string, len(xs))
	for i, x := range xs {
		s[i] = fmt.Sprintf("(%d, %d)", x.a, x.b)
	}
	return "[" + strings.Join(s, "; ") + "]"
}

var c05Logger = func() *logrus.Logger {
	l := logrus.New()
	l.SetOutput(ioutil.Discard)
	l.SetLevel(logrus.ErrorLevel)
	return l
}()

// c05Run executes the real code on the layout and returns the Gallina case, a JSON description and tags.
func c05Run(lay *c05Layout) (string, map[string]interface{}, []string, bool) {
	bal := &Balancer{Logger: c05Logger, MinMtime: c05MinMtime}
	bal.KeepServices = map[string]*KeepService{}
	srvs := make([]*KeepService, lay.nsrv)
	for i := 0; i < lay.nsrv; i++ {
		srvs[i] = &KeepService{KeepService: arvados.KeepService{UUID: c05SrvUUID(i), ServiceHost: fmt.Sprintf("keep%d.example", i), ServicePort: 25107, ServiceType: "disk", ReadOnly: lay.srvRO[i]}, ChangeSet: &ChangeSet{}}
		bal.KeepServices[srvs[i].UUID] = srvs[i]
	}
	srvOfURL := map[string]int{}
	for i, s := range srvs {
		srvOfURL[s.URLBase()] = i
	}
	devID := map[string]int{"": 0}
	var mnts []*KeepMount
	midOfUUID := map[string]int{}
	var rawTerms []string
	var rawDesc []map[string]interface{}
	for j, m := range lay.mounts {
		var sc map[string]bool
		if len(m.classes) > 0 {
			sc = map[string]bool{}
			for k, c := range m.classes {
				sc[c] = k%2 == 0 // the value is ignored by setupLookupTables: only keys count
			}
		}
		km := &KeepMount{KeepMount: arvados.KeepMount{UUID: fmt.Sprintf("zzzzz-nyw5e-%015d", j+1), DeviceID: m.dev, ReadOnly: m.ro, Replication: m.repl, StorageClasses: sc}, KeepService: srvs[m.srv]}
		srvs[m.srv].mounts = append(srvs[m.srv].mounts, km)
		mnts = append(mnts, km)
		midOfUUID[km.UUID] = j + 1
		if _, ok := devID[m.dev]; !ok {
			devID[m.dev] = len(devID)
		}
		var cls []int
		for _, c := range m.classes {
			for id, n := range c05ClassPool {
				if n == c {
					cls = append(cls, id)
				}
			}
		}
		sort.Ints(cls)
		r := m.repl
		if r < 0 {
			r = 0
		}
		rawTerms = append(rawTerms, fmt.Sprintf("mkm %d %d %d %v %d %s", j+1, m.srv, devID[m.dev], m.ro, r, c05Ints(cls)))
		rawDesc = append(rawDesc, map[string]interface{}{"mount": j + 1, "srv": m.srv, "dev": m.dev, "ro": m.ro, "repl": m.repl, "classes": m.classes})
	}
	bal.cleanupMounts()
	bal.setupLookupTables()
	surv := map[*KeepMount]bool{}
	nsurv := 0
	for _, s := range srvs {
		for _, m := range s.mounts {
			surv[m] = true
			nsurv++
		}
	}
	var replicas []Replica
	for j, m := range lay.mounts {
		if m.has && surv[mnts[j]] {
			replicas = append(replicas, Replica{mnts[j], m.mtime})
			if m.dup {
				replicas = append(replicas, Replica{mnts[j], m.mtime + 1})
			}
		}
	}
	if lay.shuffle != nil {
		for i := len(replicas) - 1; i > 0; i-- {
			k := lay.shuffle.Intn(i + 1)
			replicas[i], replicas[k] = replicas[k], replicas[i]
		}
	}
	rank := c05Ranks(lay.nsrv, lay.blkid)
	var devs []string
	for d := range devID {
		devs = append(devs, d)
	}
	sort.Strings(devs)
	sort.SliceStable(devs, func(i, j int) bool { return rendezvousLess(devs[i], devs[j], lay.blkid) })
	devrank := make([]int, len(devID))
	for pos, d := range devs {
		devrank[devID[d]] = pos
	}
	var res balanceResult
	otherBlk := arvados.SizedDigest("")
	if lay.colls == nil {
		desired := map[string]int{}
		for k, v := range lay.desired {
			desired[k] = v
		}
		res = bal.balanceBlock(lay.blkid, &BlockState{Replicas: replicas, Desired: desired})
	} else {
		// the production path: index entries -> AddReplicas, collections -> addCollection -> IncreaseDesired,
		// ComputeChangeSets (setupLookupTables + balanceBlock for every block in the map)
		otherBlk = c05Blk(999983)
		bal.Metrics = c05Metrics
		bal.DefaultReplication = lay.defRepl
		bal.BlockStateMap = NewBlockStateMap()
		for _, rp := range replicas {
			bal.BlockStateMap.AddReplicas(rp.KeepMount, []arvados.KeepServiceIndexEntry{{SizedDigest: lay.blkid, Mtime: rp.Mtime}})
		}
		if len(mnts) > 0 && surv[mnts[0]] {
			bal.BlockStateMap.AddReplicas(mnts[0], []arvados.KeepServiceIndexEntry{{SizedDigest: otherBlk, Mtime: 7}})
		}
		for k, cl := range lay.colls {
			mt := fmt.Sprintf(". %s 0:0:f\n", otherBlk)
			if cl.refs {
				mt = fmt.Sprintf(". %s %s 0:0:f\n", lay.blkid, otherBlk)
				if k%2 == 1 {
					mt = fmt.Sprintf(". %s 0:0:f\n", lay.blkid)
				}
			}
			if err := bal.addCollection(arvados.Collection{UUID: fmt.Sprintf("zzzzz-4zz18-%015d", k), ManifestText: mt, ReplicationDesired: cl.repl, StorageClassesDesired: cl.classes}); err != nil {
				panic(err)
			}
		}
		var lostBuf bytes.Buffer
		bal.lostBlocks = &lostBuf
		bal.ComputeChangeSets()
		for _, ln := range strings.Split(lostBuf.String(), "\n") {
			if strings.HasPrefix(ln, string(lay.blkid[:32])) {
				res.lost = true
			}
		}
	}

	// observe through what would be sent: the JSON of every Trash / Pull in the change sets
	var oTrash, oPull []c05Pair
	for _, s := range srvs {
		for _, tr := range s.ChangeSet.Trashes {
			var j struct {
				Locator    string `json:"locator"`
				BlockMtime int64  `json:"block_mtime"`
				MountUUID  string `json:"mount_uuid"`
			}
			b, _ := json.Marshal(tr)
			json.Unmarshal(b, &j)
			if otherBlk != "" && j.Locator == string(otherBlk[:32]) {
				continue
			}
			m, ok := midOfUUID[j.MountUUID]
			if !ok || j.Locator != string(lay.blkid[:32]) || mnts[m-1].KeepService != s {
				m = 9999 // request names a wrong block, an unknown mount, or sits in another server's list
			}
			oTrash = append(oTrash, c05Pair{m, int(j.BlockMtime)})
		}
		for _, p := range s.ChangeSet.Pulls {
			var j struct {
				Locator   string   `json:"locator"`
				Servers   []string `json:"servers"`
				MountUUID string   `json:"mount_uuid"`
			}
			b, _ := json.Marshal(p)
			json.Unmarshal(b, &j)
			if otherBlk != "" && j.Locator == string(otherBlk[:32]) {
				continue
			}
			m, ok := midOfUUID[j.MountUUID]
			from := 9999
			if len(j.Servers) == 1 {
				if f, ok := srvOfURL[j.Servers[0]]; ok {
					from = f
				}
			}
			if !ok || j.Locator != string(lay.blkid[:32]) || mnts[m-1].KeepService != s {
				m = 9999
			}
			oPull = append(oPull, c05Pair{m, from})
		}
	}
	sort.Slice(oTrash, func(i, j int) bool { return oTrash[i].a < oTrash[j].a })
	sort.Slice(oPull, func(i, j int) bool { return oPull[i].a < oPull[j].a })

	var sro []int
	for i, ro := range lay.srvRO {
		if ro {
			sro = append(sro, i)
		}
	}
	var rp []c05Pair
	for _, r := range replicas {
		rp = append(rp, c05Pair{midOfUUID[r.KeepMount.UUID], int(r.Mtime)})
	}
	var des []c05Pair
	for id, n := range c05ClassPool {
		if v, ok := lay.desired[n]; ok {
			des = append(des, c05Pair{id, v})
		}
	}
	term := fmt.Sprintf("{| c_dflt := %d; c_raw := [%s]; c_sro := %s; c_repl := %s; c_desired := %s; c_rank := %s; c_devrank := %s; c_min := %d;\n   o_trash := %s; o_pull := %s; o_lost := %v |}",
		c05Dflt, strings.Join(rawTerms, "; "), c05Ints(sro), c05Pairs(rp), c05Pairs(des), c05Ints(rank), c05Ints(devrank), c05MinMtime,
		c05Pairs(oTrash), c05Pairs(oPull), res.lost)
	desc := map[string]interface{}{"blkid": string(lay.blkid), "services_ro": sro, "mounts": rawDesc, "replicas": fmt.Sprint(rp), "desired": lay.desired,
		"rank": rank, "devrank": devrank, "trash": fmt.Sprint(oTrash), "pull": fmt.Sprint(oPull), "lost": res.lost, "mounts_after_cleanup": nsurv}
	collDemand := map[string]int{} // class -> largest replication asked for by a referencing collection (tags only)
	if lay.colls != nil {
		var cts []string
		var cdesc []map[string]interface{}
		for _, cl := range lay.colls {
			if !cl.refs {
				continue
			}
			cts = append(cts, c05CollTerm(cl))
			cdesc = append(cdesc, map[string]interface{}{"storage_classes_desired": cl.classes, "replication_desired": cl.repl})
			n := lay.defRepl
			if cl.repl != nil {
				n = *cl.repl
			}
			cls := cl.classes
			if len(cls) == 0 {
				cls = []string{"default"}
			}
			for _, c := range cls {
				if n > collDemand[c] {
					collDemand[c] = n
				}
			}
		}
		term = fmt.Sprintf("CColl {| b_defrepl := %d; b_colls := %s;\n  b_case := %s |}", lay.defRepl, gList(cts), term)
		desc["collections_referencing_the_block"] = cdesc
		desc["default_replication"] = lay.defRepl
		delete(desc, "desired")
	}

	// tags
	tags := []string{fmt.Sprintf("services=%d", c05Bucket(lay.nsrv))}
	devCount := map[string]int{}
	blankPerSrv := map[int]int{}
	allRO := true
	for j, m := range lay.mounts {
		if !surv[mnts[j]] {
			continue
		}
		if m.dev != "" {
			devCount[m.dev]++
		} else {
			blankPerSrv[m.srv]++
		}
		if !mnts[j].ReadOnly {
			allRO = false
		}
	}
	for _, n := range devCount {
		if n > 1 {
			tags = append(tags, "shared-device")
			break
		}
	}
	for _, n := range blankPerSrv {
		if n > 1 {
			tags = append(tags, "comparator-ties")
			break
		}
	}
	if allRO {
		tags = append(tags, "all-read-only")
	}
	if nsurv < len(lay.mounts) {
		tags = append(tags, "cleanup-dropped-ro-view")
	}
	if len(replicas) == 0 {
		tags = append(tags, "no-replica")
	}
	nd := 0
	for _, v := range lay.desired {
		if v > 0 {
			nd++
		}
	}
	for _, v := range collDemand {
		if v > 0 {
			nd++
		}
	}
	tags = append(tags, fmt.Sprintf("desired-classes=%d", nd))
	if len(oTrash) > 0 {
		tags = append(tags, "out:trash")
	}
	if len(oPull) > 0 {
		tags = append(tags, "out:pull")
	}
	if res.lost {
		tags = append(tags, "out:lost")
	}
	nontrivial := nsurv >= 2 && (nd > 0 || len(replicas) > 0)
	return term, desc, tags, nontrivial
}

func c05CollTerm(cl c05Coll) string {
	var cls []string
	for _, c := range cl.classes {
		for id, n := range c05ClassPool {
			if n == c {
				cls = append(cls, fmt.Sprint(id))
			}
		}
	}
	rp := "None"
	if cl.repl != nil {
		rp = fmt.Sprintf("(Some %d)", *cl.repl)
	}
	return fmt.Sprintf("mkc %s %s", gList(cls), rp)
}

func c05Bucket(n int) int {
	switch {
	case n <= 4:
		return n
	case n <= 8:
		return 8
	}
	return 16
}

// ---------- stratified random generator ----------

func c05RandClasses(r *vRand) []string {
	switch r.Intn(6) {
	case 0, 1:
		return nil
	case 2:
		return []string{"default"}
	case 3:
		return []string{"special"}
	case 4:
		return []string{"default", "special"}
	}
	return []string{"archive"}
}

func c05Mtime(r *vRand) int64 {
	switch r.Intn(5) {
	case 0:
		return 50 // colliding old
	case 1:
		return 150 // colliding new
	case 2, 3:
		return int64(1 + r.Intn(99))
	}
	return int64(100 + r.Intn(100))
}

func c05Desired(r *vRand) map[string]int {
	d := map[string]int{}
	if r.Chance(5, 6) {
		d["default"] = r.Intn(5)
	}
	if r.Chance(1, 2) {
		d["special"] = r.Intn(4)
	}
	if r.Chance(1, 8) {
		d["archive"] = r.Intn(3)
	}
	return d
}

// general random layout
func c05GenGeneral(r *vRand) *c05Layout {
	nsrv := 1 + r.Intn(5)
	if r.Chance(1, 6) {
		nsrv = 1 + r.Intn(16)
	}
	lay := &c05Layout{nsrv: nsrv, srvRO: make([]bool, nsrv), blkid: c05Blk(r.U64() % 100000), shuffle: r}
	nshared := 0
	for i := 0; i < nsrv; i++ {
		lay.srvRO[i] = r.Chance(1, 8)
		nm := 1 + r.Intn(2)
		if r.Chance(1, 10) {
			nm = r.Intn(4)
		}
		usedShared := map[string]bool{}
		for j := 0; j < nm; j++ {
			m := c05Mount{srv: i, dev: fmt.Sprintf("dev-%d-%d", i, j), ro: r.Chance(1, 7), repl: 1 + r.Intn(3), classes: c05RandClasses(r)}
			switch x := r.Intn(12); {
			case x < 3: // shared between servers
				d := fmt.Sprintf("shared-%d", r.Intn(2))
				if !usedShared[d] || r.Chance(1, 10) {
					m.dev = d
					usedShared[d] = true
					nshared++
				}
			case x == 3:
				m.dev = ""
			}
			if r.Chance(1, 30) {
				m.repl = r.Intn(2) - 1 // 0 or -1: read as 1
			}
			lay.mounts = append(lay.mounts, m)
		}
	}
	// replicas per physical device (consistent views, one mtime), with occasional inconsistent views
	type devState struct {
		has bool
		mt  int64
	}
	st := map[string]devState{}
	for j := range lay.mounts {
		m := &lay.mounts[j]
		key := m.dev
		if key == "" {
			key = fmt.Sprintf("blank:%d", j)
		}
		s, seen := st[key]
		if !seen {
			s = devState{has: r.Chance(1, 2), mt: c05Mtime(r)}
			st[key] = s
		}
		m.has, m.mtime = s.has, s.mt
		if seen && r.Chance(1, 6) { // this view differs
			if r.Bool() {
				m.has = r.Bool()
			} else {
				m.mtime = c05Mtime(r)
			}
		}
		m.dup = m.has && r.Chance(1, 40)
	}
	lay.desired = c05Desired(r)
	return lay
}

// F1 stratum: a device mounted on two servers (both views show the replica) x better-ranked empty slots
func c05GenShared(r *vRand) *c05Layout {
	nsrv := 3 + r.Intn(4)
	lay := &c05Layout{nsrv: nsrv, srvRO: make([]bool, nsrv), blkid: c05Blk(r.U64() % 100000), shuffle: r}
	rank := c05Ranks(nsrv, lay.blkid)
	byRank := make([]int, nsrv)
	for i, p := range rank {
		byRank[p] = i
	}
	nEmpty := 1 + r.Intn(2)
	if nEmpty > nsrv-2 {
		nEmpty = nsrv - 2
	}
	want := 0
	for p := 0; p < nsrv; p++ {
		i := byRank[p]
		m := c05Mount{srv: i, dev: fmt.Sprintf("dev-%d", i), repl: 1 + r.Intn(2)}
		switch {
		case p < nEmpty: // best-ranked, empty, writable
			want += m.repl
		case p < nEmpty+2: // the shared device
			m.dev = "shared"
			m.has, m.mtime = true, 40
			if r.Chance(1, 5) {
				m.mtime = int64(30 + r.Intn(20)) // servers may report different mtimes
			}
			m.repl = 1
		default:
			m.has = r.Chance(3, 4)
			m.mtime = int64(60 + p)
			if r.Chance(1, 4) {
				m.mtime = c05Mtime(r)
			}
		}
		if r.Chance(1, 12) {
			m.ro = true
		}
		lay.mounts = append(lay.mounts, m)
	}
	// a second mount on some servers now and then
	if r.Chance(1, 4) {
		i := r.Intn(nsrv)
		lay.mounts = append(lay.mounts, c05Mount{srv: i, dev: fmt.Sprintf("dev-%d-b", i), repl: 1, has: r.Bool(), mtime: c05Mtime(r), classes: c05RandClasses(r)})
	}
	lay.desired = map[string]int{"default": want}
	if r.Chance(1, 3) {
		lay.desired["default"] = 1 + r.Intn(3)
	}
	return lay
}

// F10 stratum: several mounts of one class on one server x a mount outside the class elsewhere
func c05GenMulti(r *vRand) *c05Layout {
	nsrv := 2 + r.Intn(3)
	lay := &c05Layout{nsrv: nsrv, srvRO: make([]bool, nsrv), blkid: c05Blk(r.U64() % 100000), shuffle: r}
	cls := r.Pick("special", "archive")
	k := 2 + r.Intn(2)
	for j := 0; j < k; j++ {
		lay.mounts = append(lay.mounts, c05Mount{srv: 0, dev: fmt.Sprintf("dev-0-%d", j), repl: 1, classes: []string{cls}, has: r.Chance(5, 6), mtime: int64(10 + j)})
	}
	for i := 1; i < nsrv; i++ {
		m := c05Mount{srv: i, dev: fmt.Sprintf("dev-%d-0", i), repl: 1 + r.Intn(2), has: r.Chance(3, 4), mtime: int64(20 + i)}
		switch r.Intn(4) {
		case 0:
			m.classes = []string{cls}
		case 1:
			m.classes = []string{"default", cls}
		}
		if r.Chance(1, 10) {
			m.mtime = c05Mtime(r)
		}
		lay.mounts = append(lay.mounts, m)
	}
	lay.desired = map[string]int{cls: 1 + r.Intn(k)}
	if r.Chance(1, 3) {
		lay.desired["default"] = r.Intn(3)
	}
	return lay
}

// F12 stratum: a desired class that no mount offers
func c05GenNoMount(r *vRand) *c05Layout {
	lay := c05GenGeneral(r)
	for j := range lay.mounts {
		var keep []string
		for _, c := range lay.mounts[j].classes {
			if c != "archive" {
				keep = append(keep, c)
			}
		}
		lay.mounts[j].classes = keep
	}
	lay.desired = map[string]int{"archive": 1 + r.Intn(3)}
	if r.Chance(1, 3) {
		lay.desired["default"] = r.Intn(3)
	}
	return lay
}

// F8 stratum: everything read-only (by mount flag, by server flag, or both)
func c05GenAllRO(r *vRand) *c05Layout {
	lay := c05GenGeneral(r)
	for j := range lay.mounts {
		if r.Bool() {
			lay.mounts[j].ro = true
		} else {
			lay.srvRO[lay.mounts[j].srv] = true
		}
		if r.Chance(2, 3) {
			lay.mounts[j].has = false
		}
	}
	if r.Chance(2, 3) {
		for j := range lay.mounts {
			lay.mounts[j].has = false
		}
	}
	if lay.desired["default"] == 0 {
		lay.desired["default"] = 1 + r.Intn(3)
	}
	return lay
}

// comparator ties: two blank-device mounts (or one device mounted twice) on one server
func c05GenTies(r *vRand) *c05Layout {
	lay := c05GenGeneral(r)
	i := r.Intn(lay.nsrv)
	d := ""
	if r.Chance(1, 4) {
		d = "twice"
	}
	for k := 0; k < 2; k++ {
		lay.mounts = append(lay.mounts, c05Mount{srv: i, dev: d, repl: 1 + r.Intn(2), has: r.Bool(), mtime: c05Mtime(r), classes: c05RandClasses(r)})
	}
	return lay
}

// no replica anywhere (lost) with mixed read-only flags
func c05GenLost(r *vRand) *c05Layout {
	lay := c05GenGeneral(r)
	for j := range lay.mounts {
		lay.mounts[j].has = false
		if r.Chance(1, 3) {
			lay.mounts[j].ro = true
		}
	}
	return lay
}

// collections referencing the block (and some that do not): 0-3 storage classes each, in any order, with
// repetitions, including classes no mount offers; replication_desired null or 0-4
func c05GenColls(r *vRand) ([]c05Coll, int) {
	n := 1 + r.Intn(4)
	if r.Chance(1, 12) {
		n = 0
	}
	colls := []c05Coll{}
	for k := 0; k < n; k++ {
		cl := c05Coll{refs: r.Chance(5, 6)}
		nc := 0
		switch x := r.Intn(10); {
		case x < 3:
			nc = 0
		case x < 5:
			nc = 1
		case x < 8:
			nc = 2
		default:
			nc = 3
		}
		for j := 0; j < nc; j++ {
			switch x := r.Intn(10); {
			case x < 4:
				cl.classes = append(cl.classes, "default")
			case x < 7:
				cl.classes = append(cl.classes, "special")
			case x < 9:
				cl.classes = append(cl.classes, "archive")
			default:
				cl.classes = append(cl.classes, "zzz")
			}
		}
		if r.Chance(7, 10) {
			v := r.Intn(5)
			if r.Chance(1, 2) {
				v = 1 + r.Intn(2)
			}
			cl.repl = &v
		}
		colls = append(colls, cl)
	}
	return colls, 1 + r.Intn(3)
}

// TestVerifC05Coll: the same layout strata, but Desired is derived from collections by the real
// addCollection / IncreaseDesired and the change sets by ComputeChangeSets (cases are `CColl` terms,
// evaluator coq/model/C05_run2.v)
func TestVerifC05Coll(t *testing.T) {
	seed := vSeed()
	n := vEnvInt("VERIF_N", 400)
	only := vOnly()
	stage := os.Getenv("VERIF_STAGE")
	if stage == "" {
		stage = "c05coll"
	}
	cs := vNewCases(stage)
	for i := 0; i < n; i++ {
		if only >= 0 && i != only {
			continue
		}
		r := vCaseRand(seed, i)
		var lay *c05Layout
		var stratum string
		switch i % 10 {
		case 0, 1, 2:
			lay, stratum = c05GenGeneral(r), "general"
		case 3:
			lay, stratum = c05GenShared(r), "shared-device-x-empty-better-slot"
		case 4, 5:
			lay, stratum = c05GenMulti(r), "class-twice-on-server-x-nonmember-elsewhere"
		case 6:
			lay, stratum = c05GenNoMount(r), "desired-class-without-mount"
		case 7:
			lay, stratum = c05GenTies(r), "ties"
		case 8:
			lay, stratum = c05GenLost(r), "no-replica"
		default:
			lay, stratum = c05GenAllRO(r), "all-read-only"
		}
		lay.desired = nil
		lay.colls, lay.defRepl = c05GenColls(r)
		// the lost-blocks report and the statistics pass see the block's size hint
		lay.blkid = c05Resize(lay.blkid, r)
		term, desc, tags, nontriv := c05Run(lay)
		desc["index"] = i
		desc["stratum"] = stratum
		nref, multi := 0, 0
		for _, cl := range lay.colls {
			if cl.refs {
				nref++
				if len(cl.classes) > 1 {
					multi++
				}
			}
		}
		tags = append(tags, fmt.Sprintf("referencing-collections=%d", nref), "size-hint:"+strings.SplitN(string(lay.blkid), "+", 2)[1])
		if multi > 0 {
			tags = append(tags, "multi-class-collection")
		}
		cs.Add(i, term, desc, nontriv && nref >= 1, append(tags, "stratum:"+stratum)...)
	}
	cs.Write()
}

func TestVerifC05(t *testing.T) {
	seed := vSeed()
	n := vEnvInt("VERIF_N", 400)
	only := vOnly()
	stage := os.Getenv("VERIF_STAGE")
	if stage == "" {
		stage = "c05"
	}
	cs := vNewCases(stage)
	for i := 0; i < n; i++ {
		if only >= 0 && i != only {
			continue
		}
		r := vCaseRand(seed, i)
		var lay *c05Layout
		var stratum string
		switch i % 16 {
		case 0, 1, 2, 3, 4, 5:
			lay, stratum = c05GenGeneral(r), "general"
		case 6, 7, 8:
			lay, stratum = c05GenShared(r), "shared-device-x-empty-better-slot"
		case 9, 10, 11:
			lay, stratum = c05GenMulti(r), "class-twice-on-server-x-nonmember-elsewhere"
		case 12:
			lay, stratum = c05GenNoMount(r), "desired-class-without-mount"
		case 13:
			lay, stratum = c05GenAllRO(r), "all-read-only"
		case 14:
			lay, stratum = c05GenTies(r), "ties"
		default:
			lay, stratum = c05GenLost(r), "no-replica"
		}
		term, desc, tags, nontriv := c05Run(lay)
		desc["index"] = i
		desc["stratum"] = stratum
		cs.Add(i, term, desc, nontriv, append(tags, "stratum:"+stratum)...)
	}
	cs.Write()
}

// ---------- exhaustive small scopes ----------

type c05Digits struct{ v uint64 }

func (d *c05Digits) next(base int) int {
	x := int(d.v % uint64(base))
	d.v /= uint64(base)
	return x
}

// Scope X1: 1..4 single-mount services with fixed rank order; per mount: replica in {none, old with
// its own mtime, old with the colliding mtime 50, new}, Replication in {1,2}; device sharing:
// none or one pair of services on one device (both views then show the same replica state);
// desired default in {1,2,3}.
func c05ScopeX1Size(n int) uint64 {
	pairs := n * (n - 1) / 2
	s := uint64(1)
	for i := 0; i < n; i++ {
		s *= 8
	}
	return s * uint64(1+pairs) * 3
}

func c05ScopeX1(n int, idx uint64) *c05Layout {
	d := &c05Digits{idx}
	lay := &c05Layout{nsrv: n, srvRO: make([]bool, n), blkid: c05IdentityBlk(n)}
	for i := 0; i < n; i++ {
		st := d.next(4)
		m := c05Mount{srv: i, dev: fmt.Sprintf("dev-%d", i), repl: 1 + d.next(2)}
		switch st {
		case 1:
			m.has, m.mtime = true, int64(10+i)
		case 2:
			m.has, m.mtime = true, 50
		case 3:
			m.has, m.mtime = true, 150
		}
		lay.mounts = append(lay.mounts, m)
	}
	pairs := n * (n - 1) / 2
	p := d.next(1 + pairs)
	if p > 0 {
		k := 1
		for a := 0; a < n; a++ {
			for b := a + 1; b < n; b++ {
				if k == p {
					lay.mounts[a].dev, lay.mounts[b].dev = "shared", "shared"
					// one physical device: both views agree
					lay.mounts[b].has, lay.mounts[b].mtime = lay.mounts[a].has, lay.mounts[a].mtime
				}
				k++
			}
		}
	}
	lay.desired = map[string]int{"default": 1 + d.next(3)}
	return lay
}

// Scope X2: two services (rank order fixed) with 1..2 mounts each, two classes; per mount: class in
// {default, special}, replica in {none, old (own mtime), new}, read-only flag (only in the shapes
// with at most three mounts); desired (default, special) in {0,1,2}^2 \ {(0,0)}.
var c05X2Shapes = [][2]int{{1, 1}, {1, 2}, {2, 1}, {2, 2}}

func c05ScopeX2Size(shape [2]int) uint64 {
	nm := shape[0] + shape[1]
	per := uint64(12)
	if nm == 4 {
		per = 6
	}
	s := uint64(1)
	for i := 0; i < nm; i++ {
		s *= per
	}
	return s * 8
}

func c05ScopeX2(shape [2]int, idx uint64) *c05Layout {
	d := &c05Digits{idx}
	lay := &c05Layout{nsrv: 2, srvRO: make([]bool, 2), blkid: c05IdentityBlk(2)}
	nm := shape[0] + shape[1]
	j := 0
	for s := 0; s < 2; s++ {
		for k := 0; k < shape[s]; k++ {
			m := c05Mount{srv: s, dev: fmt.Sprintf("dev-%d-%d", s, k), repl: 1}
			if d.next(2) == 1 {
				m.classes = []string{"special"}
			}
			switch d.next(3) {
			case 1:
				m.has, m.mtime = true, int64(10+j)
			case 2:
				m.has, m.mtime = true, int64(150+j)
			}
			if nm < 4 {
				m.ro = d.next(2) == 1
			}
			lay.mounts = append(lay.mounts, m)
			j++
		}
	}
	dd := 1 + d.next(8)
	lay.desired = map[string]int{"default": dd % 3, "special": dd / 3}
	return lay
}

func TestVerifC05X(t *testing.T) {
	n := vEnvInt("VERIF_N", 2000)
	only := vOnly()
	stage := os.Getenv("VERIF_STAGE")
	if stage == "" {
		stage = "c05x"
	}
	type scope struct {
		name string
		size uint64
		gen  func(uint64) *c05Layout
	}
	var scopes []scope
	var total uint64
	for nn := 1; nn <= 4; nn++ {
		nn := nn
		scopes = append(scopes, scope{fmt.Sprintf("X1:%d-single-mount-services", nn), c05ScopeX1Size(nn), func(i uint64) *c05Layout { return c05ScopeX1(nn, i) }})
	}
	for _, sh := range c05X2Shapes {
		sh := sh
		scopes = append(scopes, scope{fmt.Sprintf("X2:mounts-%d+%d-two-classes", sh[0], sh[1]), c05ScopeX2Size(sh), func(i uint64) *c05Layout { return c05ScopeX2(sh, i) }})
	}
	for _, s := range scopes {
		total += s.size
	}
	cs := vNewCases(stage)
	count := uint64(n)
	exhaustive := count >= total
	if exhaustive {
		count = total
	}
	for i := uint64(0); i < count; i++ {
		if only >= 0 && int(i) != only {
			continue
		}
		g := i
		if !exhaustive {
			// evenly spread sample of the enumeration (offset by the seed)
			g = (i*total/count + vSeed()*7919) % total
		}
		var lay *c05Layout
		var name string
		for _, s := range scopes {
			if g < s.size {
				lay, name = s.gen(g), s.name
				break
			}
			g -= s.size
		}
		term, desc, tags, nontriv := c05Run(lay)
		desc["index"] = i
		desc["scope"] = name
		if count > 5000 {
			// keep the meta file small: the case is regenerated from its index on replay
			desc = map[string]interface{}{"index": i, "scope": name, "trash": desc["trash"], "replicas": desc["replicas"], "desired": desc["desired"]}
		}
		cs.Add(int(i), term, desc, nontriv, append(tags, "scope:"+name)...)
	}
	if exhaustive {
		cs.Tag("exhaustive-scopes-complete")
	}
	cs.Write()
	fmt.Printf("c05x: %d of %d enumerated\n", count, total)
}
