//go:build verif

package main

// C05, stage c05seq: sequences of balancing runs of ONE keep-balance process (the production hand-over
// Server.runOnce: the RunOptions returned by Balancer.Run feed the next run) against a stub cluster
// (one http.RoundTripper, no sockets): API server (keep_services, users/current, discovery document,
// collections with replication_desired / storage_classes_desired) and stateful stub keepstores (mounts with
// read-only flags, replication, storage classes, devices shared between servers; block indexes; the last
// accepted trash list stays pending until another one is accepted).
//
// Between runs the list of registered services changes, keep-balance is restarted now and then, and in
// every run at most one request fails (by kind and target: keep_services page, a server's /mounts, the
// sanity requests, a server's ClearTrashLists PUT, the discovery document, a mount's index, a collection
// page, a server's pull or trash list).  Keepstores may already hold trash lists from an earlier process.
//
// A keepstore carries out a pending trash list (matching mount, matching mtime, old enough, writable - like
// keepstore's TrashItem) only in two situations, so that nothing moves on a correct tree: right after it
// served a block index while holding a list that was accepted under a DIFFERENT service list (the moment at
// which a stale list does harm), and - on a copy of the cluster - after every complete committing run, to
// see what is left when every pending list is carried out.  No timing is involved: every decision is
// ordered by the request sequence.
//
// One Gallina `CSeq` case per sequence (model: coq/model/C05_sweeps.v, evaluator coq/model/C05_run2.v).

import (
	"encoding/json"
	"errors"
	"fmt"
	"io/ioutil"
	"net/http"
	"os"
	"path/filepath"
	"sort"
	"strings"
	"sync"
	"testing"
	"time"

	"git.arvados.org/arvados.git/sdk/go/arvados"
	"git.arvados.org/arvados.git/sdk/go/keepclient"
	"github.com/prometheus/client_golang/prometheus"
)

const c05kTTL = 1209600 // seconds (two weeks), as the discovery document says

type c05kMount struct {
	num     int // global mount number = mid in the Coq case
	uuid    string
	srv     int
	dev     string // "" blank
	devKey  string // key into c05kCluster.devices (blank devices are devices of their own)
	ro      bool
	repl    int
	classes []string
}

type c05kTrashReq struct {
	Locator    string `json:"locator"`
	BlockMtime int64  `json:"block_mtime"`
	MountUUID  string `json:"mount_uuid"`
}
type c05kPullReq struct {
	Locator   string   `json:"locator"`
	Servers   []string `json:"servers"`
	MountUUID string   `json:"mount_uuid"`
}

type c05kService struct {
	id      int
	ro      bool
	mounts  []*c05kMount
	pending []c05kTrashReq
	pendTag string // service list under which the pending list was accepted; "?" = earlier process; "" = empty list
}

type c05kDeletion struct {
	mount int
	hash  string
	mtime int64
}

type c05kFail struct {
	kind string // "" none; keep_services, mounts, current_user, null_modified, clear_trash, discovery, index, collections, pull, trash
	arg  int    // page / service / mount number / ordinal
	mode int    // 0: 500, 1: 503 not JSON, 2: transport error, 3: 404, 4: index cut short (index only)
}

type c05kCluster struct {
	t        *testing.T
	mtx      sync.Mutex
	services []*c05kService
	devices  map[string]map[string]int64 // device -> block hash -> mtime
	blocks   []arvados.SizedDigest
	sized    map[string]arvados.SizedDigest // hash -> hash+size
	coll     *c06Sim
	oldBase  int64
	newBase  int64

	// current run
	registered []int
	fail       c05kFail
	failedReq  string
	seenDD     bool
	ncoll      int
	log        []string                  // Gallina ev terms
	view       map[int]map[string]int64  // mount number -> what its device's index listed (all mounts of the device)
	viewed     map[string]bool           // devices whose index was served in this run
	deleted    []c05kDeletion            // replicas removed by stale lists during this run
	wireTrash  map[int][]c05kTrashReq    // commit-phase trash list per service (as sent, delivered or not)
	wirePull   map[int][]c05kPullReq
	plan       map[int][2]int
	ksPages    int
}

func c05kHost(i int) string { return fmt.Sprintf("keep%d.example", i) }

func (cl *c05kCluster) setKey(set []int) string { return fmt.Sprint(set) }

func (cl *c05kCluster) isRegistered(s int) bool {
	for _, x := range cl.registered {
		if x == s {
			return true
		}
	}
	return false
}

// carry out `list` on service s against `devices`; returns what was removed
func (cl *c05kCluster) execute(s *c05kService, list []c05kTrashReq, devices map[string]map[string]int64, now time.Time) []c05kDeletion {
	var out []c05kDeletion
	for _, tr := range list {
		for _, m := range s.mounts {
			if m.uuid != tr.MountUUID || m.ro || s.ro {
				continue
			}
			mt, ok := devices[m.devKey][tr.Locator]
			if !ok || mt != tr.BlockMtime || now.UnixNano()-mt < int64(c05kTTL)*1e9 {
				continue
			}
			delete(devices[m.devKey], tr.Locator)
			out = append(out, c05kDeletion{m.num, tr.Locator, mt})
		}
	}
	return out
}

func (cl *c05kCluster) RoundTrip(req *http.Request) (*http.Response, error) {
	cl.mtx.Lock()
	defer cl.mtx.Unlock()
	mk := func(code int, body string) (*http.Response, error) {
		return &http.Response{StatusCode: code, Status: fmt.Sprintf("%d %s", code, http.StatusText(code)), Proto: "HTTP/1.1", Header: http.Header{"Content-Type": {"application/json"}}, Body: ioutil.NopCloser(strings.NewReader(body)), Request: req}, nil
	}
	var body []byte
	if req.Body != nil {
		body, _ = ioutil.ReadAll(req.Body)
		req.Body.Close()
	}
	path := req.URL.Path
	srv := -1
	if strings.HasPrefix(req.URL.Host, "keep") {
		fmt.Sscanf(req.URL.Host, "keep%d.example", &srv)
	}
	var kind, id string
	arg := 0
	var idxMount *c05kMount
	var trashList []c05kTrashReq
	var pullList []c05kPullReq
	switch {
	case path == "/arvados/v1/keep_services":
		q := req.URL.Query()
		if q.Get("offset") != "" && q.Get("offset") != "0" {
			arg = 1
		}
		kind, id = "keep_services", fmt.Sprintf("QKeepServices %d", arg)
	case srv >= 0 && path == "/mounts":
		kind, arg, id = "mounts", srv, fmt.Sprintf("QMounts %d", srv)
	case path == "/arvados/v1/users/current":
		kind, id = "current_user", "QCurrentUser"
	case path == "/discovery/v1/apis/arvados/v1/rest":
		kind, id = "discovery", "QDiscovery"
	case path == "/arvados/v1/collections":
		if strings.Contains(req.URL.RawQuery+string(body), "null") {
			kind, id = "null_modified", "QNullModified"
		} else {
			kind, arg, id = "collections", cl.ncoll, fmt.Sprintf("QCollections %d", cl.ncoll)
			cl.ncoll++
		}
	case srv >= 0 && strings.HasPrefix(path, "/mounts/") && strings.HasSuffix(path, "/blocks"):
		u := strings.TrimSuffix(strings.TrimPrefix(path, "/mounts/"), "/blocks")
		for _, m := range cl.services[srv].mounts {
			if m.uuid == u {
				idxMount = m
			}
		}
		if idxMount == nil {
			cl.t.Fatalf("index request for unknown mount %s", req.URL)
		}
		kind, arg, id = "index", idxMount.num, fmt.Sprintf("QIndex %d", idxMount.num)
	case srv >= 0 && req.Method == "PUT" && path == "/trash":
		if err := json.Unmarshal(body, &trashList); err != nil {
			cl.t.Fatalf("PUT /trash body is not a JSON list: %q", body)
		}
		if cl.seenDD {
			kind, id = "trash", fmt.Sprintf("QTrash %d", srv)
		} else {
			kind, id = "clear_trash", fmt.Sprintf("QClearTrash %d", srv)
		}
		arg = srv
	case srv >= 0 && req.Method == "PUT" && path == "/pull":
		if err := json.Unmarshal(body, &pullList); err != nil {
			cl.t.Fatalf("PUT /pull body is not a JSON list: %q", body)
		}
		kind, arg, id = "pull", srv, fmt.Sprintf("QPull %d", srv)
	default:
		cl.t.Fatalf("unexpected request %s %s", req.Method, req.URL)
	}
	// ClearTrashLists comes before GetCurrentState (discovery document - cached by the client after the first
	// run -, indexes, collections): a trash list arriving before any of those is a clearing one
	if kind == "discovery" || kind == "index" || kind == "collections" {
		defer func() { cl.seenDD = true }()
	}
	if srv >= 0 && !cl.isRegistered(srv) {
		cl.t.Fatalf("request to a service that is not registered: %s %s", req.Method, req.URL)
	}
	failing := cl.failedReq == "" && cl.fail.kind == kind && cl.fail.arg == arg
	if failing {
		cl.failedReq = id
	}
	// what the keepstores see
	switch kind {
	case "clear_trash", "trash":
		cl.log = append(cl.log, fmt.Sprintf("EvTrash %d %d %v", srv, len(trashList), !failing))
		if kind == "trash" {
			cl.wireTrash[srv] = trashList
			v := cl.plan[srv]
			v[0] = len(trashList)
			cl.plan[srv] = v
		}
		if !failing {
			s := cl.services[srv]
			s.pending = trashList
			s.pendTag = ""
			if len(trashList) > 0 {
				s.pendTag = cl.setKey(cl.registered)
			}
		}
	case "pull":
		cl.log = append(cl.log, fmt.Sprintf("EvPull %d %d %v", srv, len(pullList), !failing))
		cl.wirePull[srv] = pullList
		v := cl.plan[srv]
		v[1] = len(pullList)
		cl.plan[srv] = v
	case "index":
		cl.log = append(cl.log, fmt.Sprintf("EvIndex %d", srv))
	}
	indexText := func() string {
		var hs []string
		for h := range cl.devices[idxMount.devKey] {
			hs = append(hs, h)
		}
		sort.Strings(hs)
		text := ""
		for _, h := range hs {
			text += fmt.Sprintf("%s %d\n", cl.sized[h], cl.devices[idxMount.devKey][h])
		}
		return text + "\n"
	}
	if failing {
		switch {
		case cl.fail.mode == 4 && kind == "index":
			full := indexText()
			return mk(200, full[:len(full)-1])
		case cl.fail.mode == 1:
			return mk(503, `service unavailable`)
		case cl.fail.mode == 2:
			return nil, errors.New("injected transport error")
		case cl.fail.mode == 3:
			return mk(404, `{"errors":["not found"]}`)
		}
		return mk(500, `{"errors":["injected"]}`)
	}
	switch kind {
	case "keep_services":
		var items []arvados.KeepService
		for _, i := range cl.registered {
			items = append(items, arvados.KeepService{UUID: c05SrvUUID(i), ServiceHost: c05kHost(i), ServicePort: 25107, ServiceType: "disk", ReadOnly: cl.services[i].ro})
		}
		items = append(items, arvados.KeepService{UUID: "zzzzz-bi6l4-proxyproxyproxy", ServiceHost: "proxy.example", ServicePort: 443, ServiceSSLFlag: true, ServiceType: "proxy"})
		total := len(items)
		if cl.ksPages == 2 {
			half := total / 2
			if arg == 0 {
				items = items[:half]
			} else {
				items = items[half:]
			}
		}
		b, _ := json.Marshal(arvados.KeepServiceList{Items: items, ItemsAvailable: total})
		return mk(200, string(b))
	case "mounts":
		ms := []arvados.KeepMount{}
		for _, m := range cl.services[srv].mounts {
			var sc map[string]bool
			if len(m.classes) > 0 {
				sc = map[string]bool{}
				for _, c := range m.classes {
					sc[c] = true
				}
			}
			ms = append(ms, arvados.KeepMount{UUID: m.uuid, DeviceID: m.dev, ReadOnly: m.ro, Replication: m.repl, StorageClasses: sc})
		}
		b, _ := json.Marshal(ms)
		return mk(200, string(b))
	case "current_user":
		return mk(200, `{"uuid":"zzzzz-tpzed-000000000000000","is_admin":true,"is_active":true}`)
	case "discovery":
		return mk(200, fmt.Sprintf(`{"defaultCollectionReplication":2,"blobSignatureTtl":%d}`, c05kTTL))
	case "null_modified", "collections":
		req.Body = ioutil.NopCloser(strings.NewReader(string(body)))
		return cl.coll.RoundTrip(req)
	case "index":
		text := indexText()
		// every mount of this device shows what this index listed
		snap := map[string]int64{}
		for h, mt := range cl.devices[idxMount.devKey] {
			snap[h] = mt
		}
		cl.viewed[idxMount.devKey] = true
		for _, s := range cl.services {
			for _, m := range s.mounts {
				if m.devKey == idxMount.devKey {
					cl.view[m.num] = snap
				}
			}
		}
		// the trash worker of this server gets to a list that was accepted under another service list
		// just after the index was produced
		s := cl.services[srv]
		if s.pendTag != "" && s.pendTag != cl.setKey(cl.registered) {
			cl.deleted = append(cl.deleted, cl.execute(s, s.pending, cl.devices, time.Now())...)
			s.pending, s.pendTag = nil, ""
		}
		return mk(200, text)
	}
	return mk(200, `{}`)
}

// ---------- generation ----------

type c05kColl struct {
	classes []string
	repl    *int
	blocks  []int
}

type c05kRun struct {
	restart bool
	set     []int
	fail    c05kFail
	// pick >= 0: when the run starts, aim the failure at a registered server that holds a non-empty trash
	// list at that moment (the pick-th of them), if there is one
	pick int
}

func c05kSubset(r *vRand, n, min int) []int {
	for {
		var set []int
		for i := 0; i < n; i++ {
			if r.Chance(2, 3) {
				set = append(set, i)
			}
		}
		if len(set) >= min {
			return set
		}
	}
}

func c05kRandFail(r *vRand, set []int, nmounts int) c05kFail {
	kinds := []string{"keep_services", "mounts", "current_user", "null_modified", "clear_trash", "clear_trash", "discovery", "index", "index", "collections", "pull", "trash"}
	f := c05kFail{kind: kinds[r.Intn(len(kinds))], mode: r.Intn(4)}
	switch f.kind {
	case "mounts", "clear_trash", "pull", "trash":
		f.arg = set[r.Intn(len(set))]
	case "index":
		f.arg = 1 + r.Intn(nmounts)
		if r.Chance(1, 3) {
			f.mode = 4
		}
	case "collections":
		f.arg = r.Intn(3)
	}
	return f
}

func TestVerifC05Seq(t *testing.T) {
	seed := vSeed()
	n := vEnvInt("VERIF_N", 40)
	only := vOnly()
	stage := os.Getenv("VERIF_STAGE")
	if stage == "" {
		stage = "c05seq"
	}
	cs := vNewCases(stage)
	tmp, err := ioutil.TempDir("", "c05seq")
	if err != nil {
		t.Fatal(err)
	}
	defer os.RemoveAll(tmp)
	for i := 0; i < n; i++ {
		if only >= 0 && i != only {
			continue
		}
		r := vCaseRand(seed, i)
		term, desc, tags, nontriv := c05kSequence(t, r, i, filepath.Join(tmp, fmt.Sprintf("lost-%d.txt", i)))
		desc["index"] = i
		cs.Add(i, term, desc, nontriv, tags...)
	}
	cs.Write()
}

func c05kSequence(t *testing.T, r *vRand, i int, lostFile string) (string, map[string]interface{}, []string, bool) {
	now := time.Now()
	cl := &c05kCluster{t: t, devices: map[string]map[string]int64{}, sized: map[string]arvados.SizedDigest{}, ksPages: 1 + r.Intn(2),
		oldBase: now.Add(-30 * 24 * time.Hour).UnixNano(), newBase: now.Add(-time.Hour).UnixNano()}
	stratum := []string{"stable-service-list", "changing-service-list", "clear-fault-after-change", "random", "lists-from-earlier-process"}[i%5]
	// in the stratum that fails a clearing PUT, most blocks are over-replicated (old replicas on most devices, modest
	// demands), so that the first run leaves non-empty trash lists on several servers
	dense := stratum == "clear-fault-after-change" && r.Chance(3, 4)
	// ---- cluster ----
	nsrv := 3 + r.Intn(3)
	num := 0
	devID := map[string]int{"": 0}
	for s := 0; s < nsrv; s++ {
		svc := &c05kService{id: s, ro: r.Chance(1, 12)}
		nm := 1 + r.Intn(2)
		if r.Chance(1, 15) {
			nm = 0
		}
		for j := 0; j < nm; j++ {
			num++
			m := &c05kMount{num: num, uuid: fmt.Sprintf("zzzzz-nyw5e-%015d", num), srv: s, dev: fmt.Sprintf("dev-%d-%d", s, j), ro: r.Chance(1, 6), repl: 1 + r.Intn(2), classes: c05RandClasses(r)}
			switch x := r.Intn(12); {
			case x < 2:
				m.dev = fmt.Sprintf("shared-%d", r.Intn(2))
				for _, o := range svc.mounts { // not twice on one server (comparator ties are C05's stage `ties`)
					if o.dev == m.dev {
						m.dev = fmt.Sprintf("dev-%d-%d", s, j)
					}
				}
			case x == 2 && j == 0:
				m.dev = ""
			}
			if r.Chance(1, 20) {
				m.repl = 0 // read as 1
			}
			m.devKey = m.dev
			if m.dev == "" {
				m.devKey = fmt.Sprintf("blank:%d", num)
			}
			if _, ok := devID[m.dev]; !ok {
				devID[m.dev] = len(devID)
			}
			if cl.devices[m.devKey] == nil {
				cl.devices[m.devKey] = map[string]int64{}
			}
			svc.mounts = append(svc.mounts, m)
		}
		cl.services = append(cl.services, svc)
	}
	nmounts := num
	// ---- blocks ----
	nblk := 2 + r.Intn(3)
	var devKeys []string
	for k := range cl.devices {
		devKeys = append(devKeys, k)
	}
	sort.Strings(devKeys)
	for b := 0; b < nblk; b++ {
		blk := c05Blk(r.U64() % 100000)
		zr := vNewRand(r.U64()) // size hints (incl. the empty block) and blocks without any replica
		if b > 0 || zr.Chance(1, 2) {
			blk = c05Resize(blk, zr)
			for _, o := range cl.blocks {
				if o[:32] == blk[:32] {
					blk = c05Blk(uint64(900000 + b))
				}
			}
		}
		cl.blocks = append(cl.blocks, blk)
		cl.sized[string(blk[:32])] = blk
		p := 1 + r.Intn(3) // replica density p/4
		if !dense && zr.Chance(1, 4) {
			p = 0 // a block that exists nowhere: lost if referenced
		}
		if dense {
			p = 3
		}
		for _, dk := range devKeys {
			if r.Intn(4) < p {
				mt := cl.oldBase + int64(1+r.Intn(99))
				switch x := r.Intn(8); {
				case x == 0:
					mt = cl.oldBase + 50 // colliding
				case x == 1 && !dense:
					mt = cl.newBase + int64(1+r.Intn(99)) // newer than the signature TTL
				}
				cl.devices[dk][string(blk[:32])] = mt
			}
		}
	}
	// ---- collections ----
	ncoll := 1 + r.Intn(4)
	// in half of the sequences the collections form a run of one modified_at value longer than a page, followed by
	// a newer collection (the scanner's exact-timestamp mode and its way back out)
	tied := r.Chance(1, 2)
	if tied {
		ncoll = 3 + r.Intn(3)
	}
	var colls []c05kColl
	sim := &c06Sim{table: map[int]int{}, failAt: -1, t: t, manifest: map[int]string{}, extra: map[int]map[string]interface{}{}}
	for u := 1; u <= ncoll; u++ {
		gc, _ := c05GenColls(r)
		c := c05kColl{}
		if len(gc) > 0 {
			c.classes, c.repl = gc[0].classes, gc[0].repl
		}
		if dense {
			c.classes = nil
			if r.Chance(1, 2) {
				one := 1
				c.repl = &one
			}
		}
		if u == 1 && (c.repl != nil && *c.repl == 0) {
			c.repl = nil // at least one collection wants something (CheckSanityLate)
		}
		mt := "."
		for b := 0; b < nblk; b++ {
			if r.Chance(2, 3) || (u == 1 && b == 0) {
				c.blocks = append(c.blocks, b)
				mt += " " + string(cl.blocks[b])
			}
		}
		if len(c.blocks) == 0 {
			c.blocks = []int{0}
			mt += " " + string(cl.blocks[0])
		}
		mt += " 0:0:f\n"
		sim.table[u] = 1 + u/2
		if tied {
			sim.table[u] = 1
			if u == ncoll {
				sim.table[u] = 2
			}
		}
		sim.manifest[u] = mt
		ex := map[string]interface{}{}
		if c.repl != nil {
			ex["replication_desired"] = *c.repl
		}
		if c.classes != nil {
			ex["storage_classes_desired"] = c.classes
		}
		sim.extra[u] = ex
		colls = append(colls, c)
	}
	sim.clock = ncoll
	cl.coll = sim
	// ---- runs ----
	cp, ct := true, true
	if r.Chance(1, 8) {
		cp = r.Bool()
		ct = !cp || r.Bool()
	}
	var runs []c05kRun
	nruns := 2 + r.Intn(3)
	setA := c05kSubset(r, nsrv, 2)
	other := func(a []int) []int {
		for k := 0; k < 50; k++ {
			b := c05kSubset(r, nsrv, 2)
			if fmt.Sprint(a) != fmt.Sprint(b) {
				return b
			}
		}
		return a
	}
	switch stratum {
	case "stable-service-list":
		for k := 0; k < nruns; k++ {
			run := c05kRun{set: setA, pick: -1}
			if r.Chance(1, 2) {
				run.fail = c05kRandFail(r, setA, nmounts)
			}
			runs = append(runs, run)
		}
	case "changing-service-list":
		cur := setA
		for k := 0; k < nruns; k++ {
			runs = append(runs, c05kRun{set: cur, pick: -1})
			if r.Chance(2, 3) {
				cur = other(cur)
			}
		}
	case "clear-fault-after-change":
		setB := other(setA)
		runs = append(runs, c05kRun{set: setA, pick: -1})
		var common []int
		for _, x := range setB {
			for _, y := range setA {
				if x == y {
					common = append(common, x)
				}
			}
		}
		target := setB[r.Intn(len(setB))]
		if len(common) > 0 && r.Chance(3, 4) {
			target = common[r.Intn(len(common))]
		}
		runs = append(runs, c05kRun{set: setB, fail: c05kFail{kind: "clear_trash", arg: target, mode: r.Intn(4)}, pick: r.Intn(8) - 2})
		for k := 0; k < 1+r.Intn(2); k++ {
			runs = append(runs, c05kRun{set: setB, pick: -1})
		}
	default:
		cur := setA
		for k := 0; k < nruns; k++ {
			run := c05kRun{set: cur, restart: k > 0 && r.Chance(1, 8), pick: -1}
			if r.Chance(1, 3) {
				run.fail = c05kRandFail(r, cur, nmounts)
			}
			runs = append(runs, run)
			if r.Chance(1, 2) {
				cur = other(cur)
			}
		}
	}
	// trash lists left behind by an earlier keep-balance process: everything the server has
	var initSrv []string
	if stratum == "lists-from-earlier-process" || r.Chance(1, 6) {
		for _, s := range cl.services {
			if !r.Chance(1, 2) {
				continue
			}
			for _, m := range s.mounts {
				for h, mt := range cl.devices[m.devKey] {
					s.pending = append(s.pending, c05kTrashReq{Locator: h, BlockMtime: mt, MountUUID: m.uuid})
				}
			}
			if len(s.pending) > 0 {
				s.pendTag = "?"
				initSrv = append(initSrv, fmt.Sprint(s.id))
			}
		}
	}

	// ---- drive the real code ----
	client := &arvados.Client{Client: &http.Client{Transport: cl}, Scheme: "http", APIHost: "api.example", AuthToken: "tok"}
	cluster := &arvados.Cluster{}
	cluster.Collections.BalanceTimeout = arvados.Duration(time.Hour) // no verdict depends on it
	cluster.Collections.BalanceCollectionBatch = 1 + r.Intn(4)
	if tied {
		cluster.Collections.BalanceCollectionBatch = 1 + r.Intn(2)
	}
	cluster.Collections.BalanceCollectionBuffers = 2
	cluster.Collections.BlobMissingReport = lostFile
	newServer := func() *Server {
		return &Server{Cluster: cluster, ArvClient: client, RunOptions: RunOptions{CommitPulls: cp, CommitTrash: ct, Logger: c05Logger},
			Metrics: newMetrics(prometheus.NewRegistry()), Logger: c05Logger}
	}
	server := newServer()
	var runTerms []string
	var runDescs []map[string]interface{}
	tags := []string{"stratum:" + stratum, fmt.Sprintf("commit=%v/%v", cp, ct), fmt.Sprintf("runs=%d", len(runs))}
	if tied {
		tags = append(tags, "collections-tied-beyond-a-page")
	}
	staleExec, complete, anyTrash := 0, 0, false
	for k, run := range runs {
		if run.restart {
			server = newServer()
		}
		os.Remove(lostFile)
		cl.mtx.Lock()
		if run.pick >= 0 {
			var holders []int
			for _, s := range run.set {
				if cl.services[s].pendTag != "" {
					holders = append(holders, s)
				}
			}
			if len(holders) > 0 {
				run.fail.arg = holders[run.pick%len(holders)]
			}
		}
		cl.registered, cl.fail, cl.failedReq, cl.seenDD, cl.ncoll = run.set, run.fail, "", false, 0
		cl.log, cl.view, cl.viewed, cl.deleted = nil, map[int]map[string]int64{}, map[string]bool{}, nil
		cl.wireTrash, cl.wirePull, cl.plan = map[int][]c05kTrashReq{}, map[int][]c05kPullReq{}, map[int][2]int{}
		sim.nreq, sim.clock = 0, ncoll
		cl.mtx.Unlock()
		_, err := server.runOnce()
		cl.mtx.Lock()
		failed := "None"
		if cl.failedReq != "" {
			failed = "(Some (" + cl.failedReq + "))"
			tags = append(tags, "failed:"+strings.Fields(cl.failedReq)[0])
		}
		var planT []string
		for _, s := range run.set {
			planT = append(planT, fmt.Sprintf("(%d, (%d, %d))", s, cl.plan[s][0], cl.plan[s][1]))
		}
		var blocksT, carriedT []string
		rd := map[string]interface{}{"run": k, "services": run.set, "restart": run.restart, "fail": fmt.Sprintf("%s/%d/mode%d", run.fail.kind, run.fail.arg, run.fail.mode),
			"failed_request": cl.failedReq, "run_returned_nil": err == nil, "requests_seen_by_keepstores": strings.Join(cl.log, "; ")}
		staleExec += len(cl.deleted)
		if len(cl.deleted) > 0 {
			rd["removed_by_stale_list_after_index"] = fmt.Sprint(cl.deleted)
		}
		if err == nil && cp && ct && cl.failedReq == "" {
			complete++
			// what would be left if every pending list of a registered server were carried out now (on a copy)
			copyDev := map[string]map[string]int64{}
			for dk, m := range cl.devices {
				copyDev[dk] = map[string]int64{}
				for h, mt := range m {
					copyDev[dk][h] = mt
				}
			}
			carried := append([]c05kDeletion{}, cl.deleted...)
			for _, s := range run.set {
				carried = append(carried, cl.execute(cl.services[s], cl.services[s].pending, copyDev, time.Now())...)
			}
			lostText, _ := ioutil.ReadFile(lostFile)
			for b := range cl.blocks {
				wire, phys, hasTrash := cl.blockCase(b, run.set, colls, devID, carried, string(lostText))
				blocksT = append(blocksT, wire)
				if phys != "" {
					carriedT = append(carriedT, phys)
				}
				anyTrash = anyTrash || hasTrash
			}
			rd["carried_out_if_every_pending_list_runs"] = fmt.Sprint(carried)
		}
		runTerms = append(runTerms, fmt.Sprintf("{| r_in := RI %v %s %s %s; r_ok := %v; r_log := %s;\n   r_blocks := %s;\n   r_carried := %s |}",
			run.restart, c05Ints(run.set), failed, gList(planT), err == nil, gList(cl.log), gList(blocksT), gList(carriedT)))
		runDescs = append(runDescs, rd)
		cl.mtx.Unlock()
	}
	term := fmt.Sprintf("CSeq {| q_cp := %v; q_ct := %v; q_init := %s; q_runs := [\n  %s] |}", cp, ct, gList(initSrv), strings.Join(runTerms, ";\n  "))
	var mdesc []map[string]interface{}
	for _, s := range cl.services {
		for _, m := range s.mounts {
			mdesc = append(mdesc, map[string]interface{}{"mount": m.num, "srv": s.id, "dev": m.dev, "ro": m.ro, "repl": m.repl, "classes": m.classes, "service_ro": s.ro})
		}
	}
	var cdesc []map[string]interface{}
	for _, c := range colls {
		cdesc = append(cdesc, map[string]interface{}{"storage_classes_desired": c.classes, "replication_desired": c.repl, "blocks": c.blocks})
	}
	desc := map[string]interface{}{"stratum": stratum, "commit_pulls": cp, "commit_trash": ct, "mounts": mdesc, "collections": cdesc,
		"services_holding_lists_from_an_earlier_process": initSrv, "runs": runDescs, "blocks": len(cl.blocks)}
	if staleExec > 0 {
		tags = append(tags, "stale-list-carried-out")
	}
	if len(initSrv) > 0 {
		tags = append(tags, "lists-from-earlier-process")
	}
	if anyTrash {
		tags = append(tags, "out:trash")
	}
	tags = append(tags, fmt.Sprintf("complete-runs=%d", complete))
	return term, desc, tags, len(runs) >= 2 && complete >= 1
}

// rank[s] = position of registered service s in the real rendezvous order for blkid (0 for the others)
func c05kRanks(nsrv int, set []int, blkid arvados.SizedDigest) []int {
	roots := map[string]string{}
	for _, i := range set {
		roots[c05SrvUUID(i)] = c05SrvUUID(i)
	}
	uuids := keepclient.NewRootSorter(roots, string(blkid[:32])).GetSortedRoots()
	rank := make([]int, nsrv)
	for pos, u := range uuids {
		for _, i := range set {
			if c05SrvUUID(i) == u {
				rank[i] = pos
			}
		}
	}
	return rank
}

func (cl *c05kCluster) mtimeNat(mt int64) int {
	if mt >= cl.newBase {
		return 100 + int(mt-cl.newBase)
	}
	return int(mt - cl.oldBase)
}

// blockCase prints the `bcase` of block b for the run that just completed: the replicas the served indexes
// listed, the collections referencing the block, and what was on the wire for it; and (only if different)
// the same case with o_trash = what was actually removed / would be removed by the pending lists.
func (cl *c05kCluster) blockCase(b int, set []int, colls []c05kColl, devID map[string]int, carried []c05kDeletion, lostText string) (string, string, bool) {
	blk := cl.blocks[b]
	hash := string(blk[:32])
	// registered mounts; read-only views of devices that are writable elsewhere do not survive cleanupMounts
	var regs []*c05kMount
	rw := map[string]bool{}
	for _, s := range set {
		for _, m := range cl.services[s].mounts {
			regs = append(regs, m)
			if !m.ro && m.dev != "" {
				rw[m.dev] = true
			}
		}
	}
	byNum := map[int]*c05kMount{}
	byUUID := map[string]*c05kMount{}
	var rawTerms []string
	var rp []c05Pair
	for _, m := range regs {
		byNum[m.num] = m
		byUUID[m.uuid] = m
		var cls []int
		for _, c := range m.classes {
			for id, n := range c05ClassPool {
				if n == c {
					cls = append(cls, id)
				}
			}
		}
		sort.Ints(cls)
		rawTerms = append(rawTerms, fmt.Sprintf("mkm %d %d %d %v %d %s", m.num, m.srv, devID[m.dev], m.ro, m.repl, c05Ints(cls)))
		if m.ro && rw[m.dev] {
			continue
		}
		if mt, ok := cl.view[m.num][hash]; ok {
			rp = append(rp, c05Pair{m.num, cl.mtimeNat(mt)})
		}
	}
	var sro []int
	for _, s := range set {
		if cl.services[s].ro {
			sro = append(sro, s)
		}
	}
	rank := c05kRanks(len(cl.services), set, blk)
	var devs []string
	for d := range devID {
		devs = append(devs, d)
	}
	sort.Strings(devs)
	sort.SliceStable(devs, func(i, j int) bool { return rendezvousLess(devs[i], devs[j], blk) })
	devrank := make([]int, len(devID))
	for pos, d := range devs {
		devrank[devID[d]] = pos
	}
	var cts []string
	for _, c := range colls {
		for _, x := range c.blocks {
			if x == b {
				cts = append(cts, c05CollTerm(c05Coll{classes: c.classes, repl: c.repl}))
			}
		}
	}
	srvOfURL := map[string]int{}
	for _, s := range set {
		srvOfURL[fmt.Sprintf("http://%s:25107", c05kHost(s))] = s
	}
	var oTrash, oPull, phys []c05Pair
	for _, s := range set {
		for _, tr := range cl.wireTrash[s] {
			if tr.Locator != hash {
				continue
			}
			m, ok := byUUID[tr.MountUUID]
			num := 9999 // unknown mount, or a request sitting in another server's list
			if ok && m.srv == s {
				num = m.num
			}
			oTrash = append(oTrash, c05Pair{num, cl.mtimeNat(tr.BlockMtime)})
		}
		for _, p := range cl.wirePull[s] {
			if p.Locator != hash {
				continue
			}
			m, ok := byUUID[p.MountUUID]
			num, from := 9999, 9999
			if ok && m.srv == s {
				num = m.num
			}
			if len(p.Servers) == 1 {
				if f, ok := srvOfURL[p.Servers[0]]; ok {
					from = f
				}
			}
			oPull = append(oPull, c05Pair{num, from})
		}
	}
	for _, d := range carried {
		if d.hash == hash {
			phys = append(phys, c05Pair{d.mount, cl.mtimeNat(d.mtime)})
		}
	}
	key := func(p c05Pair) int { return p.a*1000 + p.b }
	sort.Slice(oTrash, func(i, j int) bool { return key(oTrash[i]) < key(oTrash[j]) })
	sort.Slice(oPull, func(i, j int) bool { return key(oPull[i]) < key(oPull[j]) })
	sort.Slice(phys, func(i, j int) bool { return key(phys[i]) < key(phys[j]) })
	lost := false
	for _, ln := range strings.Split(lostText, "\n") {
		if strings.HasPrefix(ln, hash) {
			lost = true
		}
	}
	mkTerm := func(tr, pl []c05Pair, lost bool) string {
		return fmt.Sprintf("{| b_defrepl := 2; b_colls := %s; b_case := {| c_dflt := %d; c_raw := [%s]; c_sro := %s; c_repl := %s; c_desired := []; c_rank := %s; c_devrank := %s; c_min := %d; o_trash := %s; o_pull := %s; o_lost := %v |} |}",
			gList(cts), c05Dflt, strings.Join(rawTerms, "; "), c05Ints(sro), c05Pairs(rp), c05Ints(rank), c05Ints(devrank), c05MinMtime, c05Pairs(tr), c05Pairs(pl), lost)
	}
	wire := mkTerm(oTrash, oPull, lost)
	physT := ""
	if fmt.Sprint(phys) != fmt.Sprint(oTrash) {
		physT = mkTerm(phys, nil, true)
	}
	return wire, physT, len(oTrash) > 0
}
