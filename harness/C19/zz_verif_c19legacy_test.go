//go:build verif

package controller

// C19 harness 3: the legacy federation path of the controller, observed at the wire.
//   CLegacy: Handler.remoteClusterRequest(remote, req) (saltAuthToken + URL rebuild + proxy.Do) on synthetic
//            requests with tokens in every placement; the request handed to the HTTP client is recorded.
//   CStack:  the same requests through the whole legacy stack (setupProxyRemoteCluster: generic handler by
//            uuid / cluster_id, multi-cluster uuid queries, collection by uuid / by PDH); everything sent to a
//            remote cluster is recorded.
// Nothing goes over a socket: the Handler's HTTP clients use a recording transport.  The recorded requests are
// taken apart (Authorization, query string, body, Cookie, everything else) and printed with every reading
// (raw, URL-unescaped, base64-decoded); the search for the unsalted secrets is done in Coq.

import (
	"context"
	"database/sql"
	"database/sql/driver"
	"errors"
	"fmt"
	"io"
	"net/http"
	"net/http/httptest"
	"net/url"
	"os"
	"sort"
	"strings"
	"sync"
	"testing"

	"git.arvados.org/arvados.git/sdk/go/arvados"
	"git.arvados.org/arvados.git/sdk/go/auth"
	"github.com/jmoiron/sqlx"
)

// ---- a stub database behind Handler.db(): answers validateAPItoken's SELECT from a table keyed by the
// api_token column and records createAPItoken's INSERT ----

type c19DBRow struct{ authUUID, scopes, userUUID string }
type c19DB struct {
	mu       sync.Mutex
	failAll  bool            // every query fails (the connection is there, the statement errors out)
	fail     map[string]bool // queries for these api_token values fail
	rows     map[string]c19DBRow
	inserted [][2]string // uuid, secret of created tokens
	lookups  []string
}
type c19Connector struct{ db *c19DB }

func (c c19Connector) Connect(context.Context) (driver.Conn, error) { return &c19Conn{c.db}, nil }
func (c c19Connector) Driver() driver.Driver                        { return c19Driver{} }

type c19Driver struct{}

func (c19Driver) Open(string) (driver.Conn, error) { return nil, errors.New("c19 stub: use the connector") }

type c19Conn struct{ db *c19DB }

func (c *c19Conn) Prepare(q string) (driver.Stmt, error) { return &c19Stmt{c.db, strings.TrimSpace(q)}, nil }
func (c *c19Conn) Close() error                          { return nil }
func (c *c19Conn) Begin() (driver.Tx, error)             { return nil, errors.New("c19 stub: no transactions") }

type c19Stmt struct {
	db *c19DB
	q  string
}

func (s *c19Stmt) Close() error  { return nil }
func (s *c19Stmt) NumInput() int { return -1 }
func (s *c19Stmt) Exec(args []driver.Value) (driver.Result, error) {
	if !strings.HasPrefix(s.q, "INSERT INTO api_client_authorizations") || len(args) < 2 {
		return nil, errors.New("c19 stub: unexpected statement " + s.q)
	}
	s.db.mu.Lock()
	defer s.db.mu.Unlock()
	s.db.inserted = append(s.db.inserted, [2]string{fmt.Sprint(args[0]), fmt.Sprint(args[1])})
	return driver.RowsAffected(1), nil
}
func (s *c19Stmt) Query(args []driver.Value) (driver.Rows, error) {
	if !strings.HasPrefix(s.q, "SELECT api_client_authorizations.uuid") || len(args) != 1 {
		return nil, errors.New("c19 stub: unexpected query " + s.q)
	}
	s.db.mu.Lock()
	defer s.db.mu.Unlock()
	key := fmt.Sprint(args[0])
	s.db.lookups = append(s.db.lookups, key)
	if s.db.failAll || s.db.fail[key] {
		return nil, errors.New("c19 stub: canceling statement due to statement timeout")
	}
	row, ok := s.db.rows[key]
	return &c19Rows{row: row, have: ok}, nil
}

type c19Rows struct {
	row        c19DBRow
	have, done bool
}

func (r *c19Rows) Columns() []string { return []string{"uuid", "scopes", "uuid"} }
func (r *c19Rows) Close() error      { return nil }
func (r *c19Rows) Next(dest []driver.Value) error {
	if !r.have || r.done {
		return io.EOF
	}
	r.done = true
	dest[0], dest[1], dest[2] = r.row.authUUID, r.row.scopes, r.row.userUUID
	return nil
}

const c19RailsHost = "rails.local.example"

func c19RemoteHost(id string) string { return "r" + id + ".remote.example" }

type c19Req struct {
	method, target, ctype, body string
	authHdr                     string
	basicUser, basicPass        string
	basic                       bool
	cookieTok                   string
	hasCookie, otherCookie      bool
	via                         string
	reqid                       string
	term                        string
	secrets                     []string
	places                      []string
	query, form                 url.Values
	tokens                      []string          // every distinct token drawn, in order
	secretOf                    map[string]string // unsalted v2 token -> its secret
	legacy                      []string          // legacy-format tokens drawn for a database lookup
}

// does the token make validateAPItoken index past the end of strings.Split(token, "/") (a crash of the
// controller that is outside C19; such cases run with the database unreachable, as before)
func c19CrashesValidate(tok string) bool {
	return strings.HasPrefix(tok, "v2/") && strings.Count(tok, "/") < 2
}

// c19GenReq draws a request for path with tokens in a subset of the placements; extraQuery/extraForm are
// parameters the route needs (cluster_id, filters, ...).  noForm: the route needs a request without a body.
func c19GenReq(r *vRand, remote, path string, extraQuery, extraForm url.Values, noForm bool, method, jsonBody string) *c19Req {
	q := &c19Req{secretOf: map[string]string{}}
	pick0 := func() string {
		switch r.Intn(15) {
		case 0:
			tok, kind := c19Token(r, remote)
			if strings.ContainsAny(tok, "\x00\r\n") || kind == "random-bytes" || kind == "tiny" {
				tok = "opaque" + c19Str(r, c19Alnum, 8)
			}
			return tok
		case 1:
			return "v2/aaaaa-gj3su-" + c19Str(r, c19Alnum, 15) + "/" + c19Str(r, "0123456789abcdef", 40) // salted for another cluster
		case 2, 3, 4:
			tok := c19Str(r, c19Alnum, 41+r.Intn(15))
			q.legacy = append(q.legacy, tok)
			return tok
		}
		tok, s := c19V2(r, remote)
		q.secrets = append(q.secrets, s)
		q.secretOf[tok] = s
		return tok
	}
	pick := func() string {
		t := pick0()
		q.tokens = append(q.tokens, t)
		return t
	}
	if jsonBody != "" {
		noForm = true
	}
	var shared string
	tokenFor := func() string {
		if shared != "" && r.Bool() {
			return shared
		}
		t := pick()
		if shared == "" {
			shared = t
		}
		return t
	}
	// placements: a subset, weighted so that single placements are common
	var places []string
	switch r.Intn(10) {
	case 0:
		places = []string{"form"}
	case 1:
		places = []string{"cookie"}
	case 2:
		places = []string{"query"}
	case 3:
		places = []string{[]string{"bearer", "oauth2", "basic"}[r.Intn(3)]}
	case 4:
		places = nil
	default:
		for _, p := range []string{"hdr", "query", "form", "cookie"} {
			if r.Chance(2, 5) {
				if p == "hdr" {
					p = []string{"bearer", "oauth2", "basic"}[r.Intn(3)]
				}
				places = append(places, p)
			}
		}
	}
	if noForm {
		var ps []string
		for _, p := range places {
			if p == "form" {
				p = "query"
			}
			dup := false
			for _, x := range ps {
				dup = dup || x == p
			}
			if !dup {
				ps = append(ps, p)
			}
		}
		places = ps
	}
	has := func(p string) bool {
		for _, x := range places {
			if x == p {
				return true
			}
		}
		return false
	}
	query := url.Values{}
	if r.Bool() && extraQuery.Get("filters") == "" && extraForm.Get("filters") == "" {
		query.Set("limit", fmt.Sprint(r.Intn(100)))
	}
	if r.Chance(1, 4) && extraQuery.Get("filters") == "" && extraForm.Get("filters") == "" {
		query.Add("filters", `[["uuid","=","x y+z"]]`)
	}
	for k, vs := range extraQuery {
		query[k] = append([]string(nil), vs...)
	}
	if has("query") {
		// api_token may be repeated, and a value may be empty (in particular the first one)
		if r.Chance(1, 3) {
			query.Add("api_token", "")
		}
		query.Add("api_token", tokenFor())
		if r.Chance(1, 6) {
			query.Add("api_token", tokenFor())
		}
		if r.Chance(1, 8) {
			query.Add("api_token", "")
		}
	} else if r.Chance(1, 12) {
		query.Add("api_token", "")
	}
	form := url.Values{}
	for k, vs := range extraForm {
		form[k] = append([]string(nil), vs...)
	}
	switch {
	case has("form"):
		q.ctype = "application/x-www-form-urlencoded"
		if r.Chance(1, 8) && len(extraForm) == 0 {
			q.ctype = []string{"application/x-www-form-encoded", "application/x-www-form-urlencoded; charset=UTF-8"}[r.Intn(2)]
		}
		if r.Chance(1, 4) {
			form.Add("api_token", "")
		}
		form.Add("api_token", tokenFor())
		if r.Chance(1, 8) {
			form.Add("api_token", []string{"", tokenFor()}[r.Intn(2)])
		}
		if r.Bool() {
			form.Set("foo", "bar baz")
		}
		q.body = form.Encode()
	case len(extraForm) > 0:
		q.ctype = "application/x-www-form-urlencoded"
		q.body = form.Encode()
	case jsonBody != "":
		q.ctype, q.body = "application/json", jsonBody
	case noForm:
	case r.Chance(1, 4):
		q.ctype = "application/x-www-form-urlencoded"
		form.Set("foo", "bar")
		if r.Bool() {
			form.Set("ensure_unique_name", "true")
		}
		q.body = form.Encode()
	case r.Chance(1, 4):
		q.ctype = "application/json"
		q.body = `{"a":1}`
	case r.Chance(1, 8):
		q.ctype = "application/x-www-form-encoded"
		form.Set("foo", "bar")
		q.body = form.Encode()
	}
	q.method = method
	if q.body != "" && (q.method == "" || q.method == "DELETE") {
		q.method = "POST"
	}
	if q.method == "" {
		q.method = "GET"
	}
	q.target = "http://controller.example" + path
	if enc := query.Encode(); enc != "" {
		q.target += "?" + enc
	}
	q.reqid = "req-" + c19Str(r, c19Alnum, 8)
	authTerm := "ANone"
	switch {
	case has("bearer"):
		tk := tokenFor()
		q.authHdr = "Bearer " + tk
		authTerm = "(ABearer " + gStr(tk) + ")"
	case has("oauth2"):
		tk := tokenFor()
		q.authHdr = "OAuth2 " + tk
		authTerm = "(ABearer " + gStr(tk) + ")"
	case has("basic"):
		tk := tokenFor()
		q.basic, q.basicUser, q.basicPass = true, []string{"none", "", "git"}[r.Intn(3)], tk
		authTerm = "(ABasic " + gStr(q.basicUser) + " " + gStr(tk) + ")"
	case r.Chance(1, 8):
		q.authHdr = []string{"Digest abc", "bearer opaquelowercase", "Bearer", "Token xyz"}[r.Intn(4)]
		authTerm = "(AOther " + gStr(q.authHdr) + ")"
	}
	cookieTerm := "None"
	if has("cookie") {
		q.hasCookie, q.cookieTok = true, tokenFor()
		cookieTerm = "(Some " + gStr(q.cookieTok) + ")"
		q.otherCookie = r.Bool()
	}
	q.places, q.query, q.form = places, query, form
	q.term = fmt.Sprintf("(Rq %s %s %s %s %s)", authTerm, c19PairsTerm(c19Pairs(query)), gStr(q.ctype), c19PairsTerm(c19Pairs(form)), cookieTerm)
	return q
}

func (q *c19Req) build() *http.Request {
	req := httptest.NewRequest(q.method, q.target, strings.NewReader(q.body))
	if q.ctype != "" {
		req.Header.Set("Content-Type", q.ctype)
	}
	req.Header.Set("X-Request-Id", q.reqid)
	if q.basic {
		req.SetBasicAuth(q.basicUser, q.basicPass)
	} else if q.authHdr != "" {
		req.Header.Set("Authorization", q.authHdr)
	}
	if q.hasCookie {
		req.AddCookie(&http.Cookie{Name: "arvados_api_token", Value: auth.EncodeTokenCookie([]byte(q.cookieTok))})
		if q.otherCookie {
			req.AddCookie(&http.Cookie{Name: "other", Value: "1"})
		}
	}
	if q.via != "" {
		req.Header.Set("Via", q.via)
	}
	return req
}

func c19Handler(rec *c19Recorder, db *c19DB, remotes ...string) *Handler {
	h := &Handler{Cluster: &arvados.Cluster{ClusterID: "aaaaa", RemoteClusters: map[string]arvados.RemoteCluster{}}}
	h.Cluster.PostgreSQL.Connection = arvados.PostgreSQLConnection{"host": "127.0.0.1", "port": "1", "connect_timeout": "1"}
	h.Cluster.API.MaxItemsPerResponse = 1000
	h.Cluster.API.MaxRequestAmplification = 4
	h.Cluster.Services.RailsAPI.InternalURLs = map[arvados.URL]arvados.ServiceInstance{{Scheme: "http", Host: c19RailsHost}: {}}
	for _, id := range remotes {
		h.Cluster.RemoteClusters[id] = arvados.RemoteCluster{Host: c19RemoteHost(id), Scheme: "http", Proxy: true, Insecure: len(id)%2 == 0}
	}
	h.proxy = &proxy{Name: "arvados-controller"}
	h.secureClient = &http.Client{Transport: rec, CheckRedirect: neverRedirect}
	h.insecureClient = &http.Client{Transport: rec, CheckRedirect: neverRedirect}
	if db != nil {
		h.pgdb = sqlx.NewDb(sql.OpenDB(c19Connector{db}), "postgres")
	}
	return h
}

func c19Recover(f func()) (panicked string) {
	defer func() {
		if p := recover(); p != nil {
			panicked = fmt.Sprint(p)
		}
	}()
	f()
	return ""
}

func c19DestOf(host string, remotes []string) string {
	for _, id := range remotes {
		if host == c19RemoteHost(id) {
			return id
		}
	}
	return "?" + host
}

// c19GenDB decides whether the database is reachable in this case and what it knows about the legacy-format
// tokens of the request.  belongs: cluster prefixes a known token's user may have besides the local one.
// Returns the stub (nil: unreachable), the Gallina table (option (list (token, db_result))), and the legacy
// tokens that must not leave unsalted: known here, user of this cluster.
func c19GenDB(r *vRand, q *c19Req, belongs []string, force bool) (*c19DB, string, []string, string) {
	reachable := r.Intn(3) > 0 || force
	for _, t := range q.tokens {
		if c19CrashesValidate(t) {
			reachable = false
		}
	}
	if !reachable {
		return nil, "None", nil, "unreachable"
	}
	db := &c19DB{rows: map[string]c19DBRow{}, fail: map[string]bool{}}
	var terms, protect []string
	if !force && r.Chance(1, 6) {
		// the handle is there but every query fails: for the model the same as unreachable; the legacy tokens
		// are tokens of local users the database cannot be asked about
		db.failAll = true
		for _, t := range q.legacy {
			protect = append(protect, t)
		}
		return db, "None", protect, "every-query-fails"
	}
	for _, t := range q.legacy {
		if _, dup := db.rows[t]; dup || db.fail[t] || r.Chance(1, 4) {
			continue // not found
		}
		if r.Chance(1, 5) { // a local user's token, but this query fails
			db.fail[t] = true
			terms = append(terms, fmt.Sprintf("(%s, DbError)", gStr(t)))
			protect = append(protect, t)
			continue
		}
		user := "aaaaa"
		if r.Chance(2, 5) {
			user = belongs[r.Intn(len(belongs))]
		}
		row := c19DBRow{authUUID: "aaaaa-gj3su-" + c19Str(r, c19Alnum, 15), scopes: `["all"]`, userUUID: user + "-tpzed-" + c19Str(r, c19Alnum, 15)}
		db.rows[t] = row
		terms = append(terms, fmt.Sprintf("(%s, DbFound %s %s %s)", gStr(t), gStr(row.userUUID), gStr(row.authUUID), gStr(t)))
		if user == "aaaaa" {
			protect = append(protect, t)
		}
	}
	return db, "(Some " + gList(terms) + ")", protect, fmt.Sprintf("reachable/%d-known/%d-failing", len(terms)-len(db.fail), len(db.fail))
}

func TestVerifC19Legacy(t *testing.T) {
	seed := vSeed()
	n := vEnvInt("VERIF_N", 400)
	only := vOnly()
	stage := os.Getenv("VERIF_STAGE")
	if stage == "" {
		stage = "c19legacy"
	}
	cs := vNewCases(stage)
	for i := 0; i < n; i++ {
		if only >= 0 && i != only {
			continue
		}
		r := vCaseRand(seed, i)
		if i%3 == 2 {
			c19StackCase(t, cs, i, r)
			continue
		}
		remote := c19Remote(r)
		if remote == "" {
			remote = "bbbbb"
		}
		q := c19GenReq(r, remote, "/arvados/v1/workflows", nil, nil, false, "", "")
		db, dbTerm, protect, dbTag := c19GenDB(r, q, []string{remote, "ccccc"}, false)
		secrets := append(append([]string(nil), q.secrets...), protect...)
		rec := &c19Recorder{}
		h := c19Handler(rec, db, remote, "ccccc")
		var resp *http.Response
		var err error
		if p := c19Recover(func() { resp, err = h.remoteClusterRequest(remote, q.build()) }); p != "" {
			err = errors.New("panic: " + p)
		}
		if resp != nil && resp.Body != nil {
			resp.Body.Close()
		}
		sent := rec.take()
		oErr := err != nil
		var oAuth string
		var oQuery [][2]string
		var parts []c19Part
		if oErr && len(sent) != 0 {
			// reported as it is: an error after something was sent still counts as sent for the search
			oErr = false
		}
		if !oErr {
			// anything unexpected is reported through the observation (it then disagrees with the model),
			// never by failing the harness; the search covers every request that was sent
			for _, s := range sent {
				parts = append(parts, c19Parts(s)...)
			}
			switch {
			case len(sent) != 1:
				oAuth = fmt.Sprintf("[%d requests sent]", len(sent))
			case sent[0].Host != c19RemoteHost(remote):
				oAuth = "[sent to host " + sent[0].Host + "]"
			default:
				oAuth = sent[0].Header.Get("Authorization")
				if qv, qerr := url.ParseQuery(sent[0].RawQuery); qerr != nil {
					oQuery = [][2]string{{"[unparseable query]", sent[0].RawQuery}}
				} else {
					oQuery = c19Pairs(qv)
				}
			}
		}
		leaks := c19Leaks(secrets, parts)
		term := fmt.Sprintf("CLegacy %s %s %s %s %s %s %s %s", q.term, gStr(remote), dbTerm, gStrs(secrets), gBool(oErr), gStr(oAuth), c19PairsTerm(oQuery), c19PartsTerm(parts))
		desc := map[string]interface{}{"index": i, "kind": "legacy remoteClusterRequest", "remote": remote, "placements": q.places, "content_type": q.ctype,
			"method": q.method, "target": q.target, "body": q.body, "authorization": q.authHdr, "basic_password": q.basicPass, "cookie_token": q.cookieTok,
			"database": dbTerm, "error": fmt.Sprint(err), "sent": sent, "secret_found_in": c19LeakList(leaks), "secrets": secrets}
		places := append([]string(nil), q.places...)
		sort.Strings(places)
		cs.Add(i, term, desc, len(secrets) > 0, "placements="+strings.Join(places, "+"), fmt.Sprintf("legacy-error=%v", oErr), fmt.Sprintf("leak=%v", len(leaks) > 0), "database="+dbTag)
	}
	cs.Write()
}

// one request through setupProxyRemoteCluster with remotes bbbbb, zzzzz, zzzz, zzzzzz; the local RailsAPI is
// played by the same recording transport (host rails.local.example; what goes there does not leave the cluster)
func c19StackCase(t *testing.T, cs *vCases, i int, r *vRand) {
	remotes := []string{"bbbbb", "zzzzz", "zzzz", "zzzzzz"}
	res := [][2]string{{"workflows", "7fd4e"}, {"containers", "dz642"}, {"container_requests", "xvhdp"}, {"links", "o0j2j"}, {"collections", "4zz18"}}
	uuidOf := func(cluster, infix string) string { return cluster + "-" + infix + "-" + c19Str(r, c19Alnum, 15) }
	var kind, path, method, jsonBody string
	var extraQ, extraF url.Values
	noForm := false
	dest := []string{"bbbbb", "zzzzz"}[r.Intn(2)]
	rs := res[r.Intn(len(res))]
	switch k := r.Intn(14); {
	case k < 4:
		kind = "uuid"
		path = "/arvados/v1/" + rs[0] + "/" + uuidOf(dest, rs[1])
		if rs[0] == "containers" && r.Chance(1, 3) {
			path += "/lock"
		}
		if r.Chance(1, 4) {
			method = []string{"PUT", "DELETE", "POST"}[r.Intn(3)]
		}
	case k < 6:
		kind = "cluster_id"
		if rs[0] == "container_requests" {
			rs = res[0]
		}
		dest = remotes[r.Intn(len(remotes))]
		path = "/arvados/v1/" + rs[0]
		if r.Bool() {
			extraQ = url.Values{"cluster_id": {dest}}
		} else {
			extraF = url.Values{"cluster_id": {dest}}
			if r.Bool() {
				extraF.Set("_method", "GET")
			}
		}
	case k < 8:
		kind = "multi"
		path = "/arvados/v1/" + rs[0]
		us := []string{uuidOf("bbbbb", rs[1]), uuidOf("zzzzz", rs[1])}
		if r.Bool() {
			us = append(us, uuidOf([]string{"aaaaa", "bbbbb", "zzzzz"}[r.Intn(3)], rs[1]))
		}
		vals := url.Values{"filters": {`[["uuid","in",["` + strings.Join(us, `","`) + `"]]]`}}
		if r.Bool() {
			vals.Set("count", "none")
		}
		if r.Chance(1, 3) {
			vals.Set("select", `["uuid","name"]`)
		}
		if r.Bool() {
			extraQ, noForm = vals, true
		} else {
			vals.Set("_method", "GET")
			extraF = vals
		}
	case k < 9:
		kind, noForm = "pdh", true
		path = "/arvados/v1/collections/" + c19Str(r, "0123456789abcdef", 32) + "+" + fmt.Sprint(r.Intn(1000))
	case k < 13:
		// legacy remoteContainerRequestCreate: a container request for another cluster
		kind, method = "crcreate", "POST"
		path = "/arvados/v1/container_requests"
		dest = []string{"bbbbb", "zzzzz", "bbbbb", "zzzzz", "bbbbb", "zzzzz", "zzzz", "aaaaa"}[r.Intn(8)]
		extraQ = url.Values{"cluster_id": {dest}}
		cr := `{"command":["echo","ok"],"container_image":"arvados/jobs","cwd":"/","output_path":"/out"`
		if r.Chance(1, 6) {
			cr += `,"runtime_token":"v2/aaaaa-gj3su-` + c19Str(r, c19Alnum, 15) + `/` + c19Str(r, c19Alnum, 50) + `"`
		}
		cr += "}"
		jsonBody = []string{`{"container_request":` + cr + `}`, cr}[r.Intn(2)]
	default:
		kind = "local"
		path = "/arvados/v1/" + rs[0]
		if r.Bool() {
			path += "/" + uuidOf("aaaaa", rs[1])
		} else if rs[0] == "container_requests" {
			path = "/arvados/v1/workflows"
		}
	}
	q := c19GenReq(r, dest, path, extraQ, extraF, noForm, method, jsonBody)
	for try := 0; kind == "crcreate" && try < 8; try++ {
		// this route indexes Tokens[0] and looks the first token up whatever its format
		crash := len(q.tokens) == 0 || len(q.places) == 0
		for _, tok := range q.tokens {
			crash = crash || c19CrashesValidate(tok)
		}
		if !crash {
			break
		}
		q = c19GenReq(r, dest, path, extraQ, extraF, noForm, method, jsonBody)
	}
	if r.Chance(1, 12) {
		q.via = []string{"1.1 some-proxy", "HTTP/1.1 arvados-controller"}[r.Intn(2)]
	}
	db, dbTerm, protect, dbTag := c19GenDB(r, q, []string{"bbbbb", "zzzzz", "ccccc"}, kind == "crcreate")
	secrets := append(append([]string(nil), q.secrets...), protect...)
	if kind == "crcreate" {
		// validateAPItoken looks at the first token, whatever its format: the database must answer (the
		// Go code indexes Tokens[0], so the request must carry a token), and it knows most v2 tokens by
		// their secret.  A token issued by another cluster is forwarded as runtime_token by design: only
		// the secrets of tokens issued here (uuid aaaaa-...) are judged.
		if db == nil || len(q.tokens) == 0 || len(q.places) == 0 {
			kind = "crcreate-skipped"
			q = c19GenReq(r, dest, "/arvados/v1/workflows", url.Values{"cluster_id": {dest}}, nil, true, "GET", "")
			db, dbTerm, protect, dbTag = nil, "None", nil, "unreachable"
			secrets = append([]string(nil), q.secrets...)
		} else {
			secrets = append([]string(nil), protect...)
			decisive := r.Chance(2, 3) // every v2 token known with scope "all": the runtime_token decision is reached
			for _, tok := range q.tokens {
				s, isV2 := q.secretOf[tok]
				if !isV2 {
					continue
				}
				uuid := strings.Split(tok, "/")[1]
				if strings.HasPrefix(uuid, "aaaaa") {
					secrets = append(secrets, s)
				}
				if !decisive && r.Chance(1, 4) {
					continue // unknown here
				}
				user := []string{"aaaaa", "aaaaa", "aaaaa", "bbbbb", "zzzzz", "ccccc"}[r.Intn(6)]
				scopes := `["all"]`
				if !decisive {
					scopes = []string{`["all"]`, `["all"]`, `["all","GET /"]`, `["GET /arvados/v1/users/current"]`, `[]`}[r.Intn(5)]
				}
				db.rows[s] = c19DBRow{authUUID: uuid, scopes: scopes, userUUID: user + "-tpzed-" + c19Str(r, c19Alnum, 15)}
			}
		}
	}
	rec := &c19Recorder{respond: func(req *http.Request, body string) (int, string) {
		if collectionsByPDHRe.MatchString(req.URL.Path) {
			return 404, `{"errors":["not found"]}`
		}
		return 200, `{"kind":"arvados#objectList","items":[]}`
	}}
	h := c19Handler(rec, db, remotes...)
	stack := h.setupProxyRemoteCluster(prepend(http.NotFoundHandler(), h.proxyRailsAPI))
	rw := httptest.NewRecorder()
	// a panic of the handler ends this request only (as net/http's server does), not the harness
	panicked := c19Recover(func() { stack.ServeHTTP(rw, q.build()) })
	all := rec.take()
	var sentTerms []string
	var sentDesc []interface{}
	leaks := map[string]bool{}
	nlocal, minted := 0, 0
	if db != nil {
		minted = len(db.inserted)
	}
	for _, s := range all {
		if s.Host == c19RailsHost {
			nlocal++
			continue
		}
		if db != nil {
			// the created token is random: name it, so that the case is reproducible
			for k, ins := range db.inserted {
				s.Body = strings.ReplaceAll(strings.ReplaceAll(s.Body, ins[1], fmt.Sprintf("createdtokensecret%d", k)), ins[0], fmt.Sprintf("aaaaa-gj3su-createdtoken%04d", k))
			}
			if s.Header.Get("Content-Length") != "" {
				s.Header.Set("Content-Length", "n")
			}
		}
		parts := c19Parts(s)
		for k := range c19Leaks(secrets, parts) {
			leaks[k] = true
		}
		d := c19DestOf(s.Host, remotes)
		sentTerms = append(sentTerms, fmt.Sprintf("(%s, %s, %s)", gStr(d), gStr(s.Header.Get("Authorization")), c19PartsTerm(parts)))
		sentDesc = append(sentDesc, map[string]interface{}{"to": d, "request": s})
	}
	term := fmt.Sprintf("CStack %s %s %s %s", q.term, dbTerm, gStrs(secrets), gList(sentTerms))
	var dbRows interface{}
	if db != nil {
		rows := map[string]interface{}{}
		for k, v := range db.rows {
			rows[k] = map[string]string{"token_uuid": v.authUUID, "scopes": v.scopes, "user_uuid": v.userUUID}
		}
		dbRows = rows
	}
	desc := map[string]interface{}{"index": i, "kind": "legacy stack: " + kind, "placements": q.places, "content_type": q.ctype, "method": q.method, "target": q.target,
		"body": q.body, "authorization": q.authHdr, "basic_password": q.basicPass, "cookie_token": q.cookieTok, "via": q.via, "response_code": rw.Code, "handler_panic": panicked,
		"database_rows_by_api_token": dbRows, "tokens_created": minted,
		"sent_to_remotes": sentDesc, "sent_to_local_railsapi": nlocal, "secret_found_in": c19LeakList(leaks), "secrets": secrets}
	places := append([]string(nil), q.places...)
	sort.Strings(places)
	cs.Add(i, term, desc, len(secrets) > 0 && len(sentTerms) > 0, "stack="+kind, "stack-placements="+strings.Join(places, "+"),
		fmt.Sprintf("stack-sent=%d", len(sentTerms)), fmt.Sprintf("stack-leak=%v", len(leaks) > 0), "stack-database="+dbTag, fmt.Sprintf("stack-created-token=%v", minted > 0), fmt.Sprintf("stack-handler-panic=%v", panicked != ""))
}
