//go:build verif

package controller

// C19 harness 3: the legacy Handler.saltAuthToken on synthetic requests with tokens in every placement.
// The outgoing request is taken apart and searched for the unsalted secrets.

import (
	"encoding/base64"
	"fmt"
	"io/ioutil"
	"net/http"
	"net/http/httptest"
	"net/url"
	"os"
	"sort"
	"strings"
	"testing"

	"git.arvados.org/arvados.git/sdk/go/arvados"
	"git.arvados.org/arvados.git/sdk/go/auth"
)

func c19Pairs(v url.Values) [][2]string {
	var keys []string
	for k := range v {
		keys = append(keys, k)
	}
	sort.Strings(keys)
	var out [][2]string
	for _, k := range keys {
		for _, x := range v[k] {
			out = append(out, [2]string{k, x})
		}
	}
	return out
}
func c19PairsTerm(ps [][2]string) string {
	var xs []string
	for _, p := range ps {
		xs = append(xs, "("+gStr(p[0])+", "+gStr(p[1])+")")
	}
	return gList(xs)
}

func c19Found(secrets []string, texts ...string) bool {
	for _, s := range secrets {
		for _, t := range texts {
			if strings.Contains(t, s) {
				return true
			}
		}
	}
	return false
}

// all readings of a header/body text in which a token could hide
func c19Readings(t string) []string {
	out := []string{t}
	if u, err := url.QueryUnescape(t); err == nil {
		out = append(out, u)
	}
	for _, f := range strings.FieldsFunc(t, func(c rune) bool { return c == ' ' || c == ';' || c == '=' || c == ',' }) {
		for _, enc := range []*base64.Encoding{base64.StdEncoding, base64.URLEncoding, base64.RawStdEncoding, base64.RawURLEncoding} {
			if b, err := enc.DecodeString(f); err == nil {
				out = append(out, string(b))
			}
		}
	}
	return out
}

func TestVerifC19Legacy(t *testing.T) {
	seed := vSeed()
	n := vEnvInt("VERIF_N", 400)
	only := vOnly()
	stage := os.Getenv("VERIF_STAGE")
	if stage == "" {
		stage = "c19legacy"
	}
	cs := vNewCases(stage)
	h := &Handler{Cluster: &arvados.Cluster{ClusterID: "aaaaa"}}
	h.Cluster.PostgreSQL.Connection = arvados.PostgreSQLConnection{"host": "127.0.0.1", "port": "1", "connect_timeout": "1"}
	for i := 0; i < n; i++ {
		if only >= 0 && i != only {
			continue
		}
		r := vCaseRand(seed, i)
		remote := c19Remote(r)
		if remote == "" {
			remote = "bbbbb"
		}
		var secrets []string
		var tags []string
		pick := func() string {
			switch r.Intn(12) {
			case 0:
				tok, kind := c19Token(r, remote)
				if strings.ContainsAny(tok, "\x00\r\n") || kind == "random-bytes" || kind == "tiny" {
					tok = "opaque" + c19Str(r, c19Alnum, 8)
				}
				return tok
			case 1:
				return "v2/aaaaa-gj3su-" + c19Str(r, c19Alnum, 15) + "/" + c19Str(r, "0123456789abcdef", 40) // salted for another cluster
			}
			tok, s := c19V2(r, remote)
			secrets = append(secrets, s)
			return tok
		}
		var shared string
		tokenFor := func() string {
			if shared != "" && r.Bool() {
				return shared
			}
			t := pick()
			if shared == "" {
				shared = t
			}
			return t
		}
		// placements: a subset, weighted so that single placements are common
		var places []string
		switch r.Intn(10) {
		case 0:
			places = []string{"form"}
		case 1:
			places = []string{"cookie"}
		case 2:
			places = []string{"query"}
		case 3:
			places = []string{[]string{"bearer", "oauth2", "basic"}[r.Intn(3)]}
		case 4:
			places = nil
		default:
			for _, p := range []string{"hdr", "query", "form", "cookie"} {
				if r.Chance(2, 5) {
					if p == "hdr" {
						p = []string{"bearer", "oauth2", "basic"}[r.Intn(3)]
					}
					places = append(places, p)
				}
			}
		}
		has := func(p string) bool {
			for _, q := range places {
				if q == p {
					return true
				}
			}
			return false
		}
		query := url.Values{}
		if r.Bool() {
			query.Set("limit", fmt.Sprint(r.Intn(100)))
		}
		if r.Chance(1, 4) {
			query.Add("filters", `[["uuid","=","x y+z"]]`)
		}
		if has("query") {
			query.Add("api_token", tokenFor())
			if r.Chance(1, 6) {
				query.Add("api_token", tokenFor())
			}
		}
		form := url.Values{}
		ctype := ""
		body := ""
		switch {
		case has("form"):
			ctype = "application/x-www-form-urlencoded"
			if r.Chance(1, 8) {
				ctype = []string{"application/x-www-form-encoded", "application/x-www-form-urlencoded; charset=UTF-8"}[r.Intn(2)]
			}
			form.Set("api_token", tokenFor())
			if r.Bool() {
				form.Set("foo", "bar baz")
			}
			body = form.Encode()
		case r.Chance(1, 4):
			ctype = "application/x-www-form-urlencoded"
			form.Set("foo", "bar")
			if r.Bool() {
				form.Set("ensure_unique_name", "true")
			}
			body = form.Encode()
		case r.Chance(1, 4):
			ctype = "application/json"
			body = `{"a":1}`
		case r.Chance(1, 8):
			ctype = "application/x-www-form-encoded"
			form.Set("foo", "bar")
			body = form.Encode()
		}
		method := "GET"
		if body != "" {
			method = "POST"
		}
		target := "http://controller.example/arvados/v1/workflows"
		if enc := query.Encode(); enc != "" {
			target += "?" + enc
		}
		req := httptest.NewRequest(method, target, strings.NewReader(body))
		if ctype != "" {
			req.Header.Set("Content-Type", ctype)
		}
		req.Header.Set("X-Request-Id", "req-"+c19Str(r, c19Alnum, 8))
		authTerm := "ANone"
		switch {
		case has("bearer"):
			tk := tokenFor()
			req.Header.Set("Authorization", "Bearer "+tk)
			authTerm = "(ABearer " + gStr(tk) + ")"
		case has("oauth2"):
			tk := tokenFor()
			req.Header.Set("Authorization", "OAuth2 "+tk)
			authTerm = "(ABearer " + gStr(tk) + ")"
		case has("basic"):
			tk := tokenFor()
			user := []string{"none", "", "git"}[r.Intn(3)]
			req.SetBasicAuth(user, tk)
			authTerm = "(ABasic " + gStr(user) + " " + gStr(tk) + ")"
		case r.Chance(1, 8):
			v := []string{"Digest abc", "bearer opaquelowercase", "Bearer", "Token xyz"}[r.Intn(4)]
			req.Header.Set("Authorization", v)
			authTerm = "(AOther " + gStr(v) + ")"
		}
		cookieTerm := "None"
		if has("cookie") {
			tk := tokenFor()
			req.AddCookie(&http.Cookie{Name: "arvados_api_token", Value: auth.EncodeTokenCookie([]byte(tk))})
			cookieTerm = "(Some " + gStr(tk) + ")"
			if r.Bool() {
				req.AddCookie(&http.Cookie{Name: "other", Value: "1"})
			}
		}
		reqTerm := fmt.Sprintf("(Rq %s %s %s %s %s)", authTerm, c19PairsTerm(c19Pairs(query)), gStr(ctype), c19PairsTerm(c19Pairs(form)), cookieTerm)

		out, err := h.saltAuthToken(req, remote)
		oErr := err != nil
		var oAuth string
		var oQuery [][2]string
		var inAuth, inQuery, inBody, inCookie, inOther bool
		if !oErr {
			oAuth = out.Header.Get("Authorization")
			qv, qerr := url.ParseQuery(out.URL.RawQuery)
			if qerr != nil {
				t.Fatalf("outgoing query does not parse: %v", qerr)
			}
			oQuery = c19Pairs(qv)
			var outBody []byte
			if out.Body != nil {
				outBody, _ = ioutil.ReadAll(out.Body)
			}
			inAuth = c19Found(secrets, c19Readings(strings.Join(out.Header["Authorization"], " "))...)
			inQuery = c19Found(secrets, c19Readings(out.URL.RawQuery)...)
			inBody = c19Found(secrets, c19Readings(string(outBody))...)
			inCookie = c19Found(secrets, c19Readings(strings.Join(out.Header["Cookie"], "; "))...)
			var other []string
			for k, vs := range out.Header {
				if k != "Authorization" && k != "Cookie" {
					other = append(other, k+": "+strings.Join(vs, ","))
				}
			}
			other = append(other, out.URL.Path, out.URL.RawPath, out.URL.Fragment, out.Host, out.Method)
			if out.URL.User != nil {
				other = append(other, out.URL.User.String())
			}
			inOther = c19Found(secrets, c19Readings(strings.Join(other, "\n"))...)
		}
		term := fmt.Sprintf("CLegacy %s %s %s %s %s %s %s %s %s %s %s", reqTerm, gStr(remote), gStrs(secrets), gBool(oErr), gStr(oAuth), c19PairsTerm(oQuery),
			gBool(inAuth), gBool(inQuery), gBool(inBody), gBool(inCookie), gBool(inOther))
		desc := map[string]interface{}{"index": i, "kind": "legacy", "remote": remote, "placements": places, "content_type": ctype, "query": query, "form": form,
			"error": fmt.Sprint(err), "authorization_out": oAuth, "secret_in_authorization": inAuth, "secret_in_query": inQuery, "secret_in_body": inBody,
			"secret_in_cookie": inCookie, "secret_elsewhere": inOther, "secrets": secrets}
		sort.Strings(places)
		tags = append(tags, "placements="+strings.Join(places, "+"), fmt.Sprintf("legacy-error=%v", oErr), fmt.Sprintf("leak=%v", inAuth || inQuery || inBody || inCookie || inOther))
		cs.Add(i, term, desc, len(secrets) > 0, tags...)
	}
	cs.Write()
}
