//go:build verif

package main

// C19 harness 4: keepstore remoteProxy.remoteClient — the token handed to the remote cluster.

import (
	"fmt"
	"os"
	"testing"

	"git.arvados.org/arvados.git/sdk/go/arvados"
	"git.arvados.org/arvados.git/sdk/go/arvadosclient"
	"git.arvados.org/arvados.git/sdk/go/keepclient"
)

func TestVerifC19KS(t *testing.T) {
	seed := vSeed()
	n := vEnvInt("VERIF_N", 300)
	only := vOnly()
	stage := os.Getenv("VERIF_STAGE")
	if stage == "" {
		stage = "c19ks"
	}
	cs := vNewCases(stage)
	for i := 0; i < n; i++ {
		if only >= 0 && i != only {
			continue
		}
		r := vCaseRand(seed, i)
		remote := c19Remote(r)
		tok, kind := c19Token(r, remote)
		base := &keepclient.KeepClient{Arvados: &arvadosclient.ArvadosClient{ApiToken: "xxx"}}
		rp := &remoteProxy{clients: map[string]*keepclient.KeepClient{remote: base}}
		kc, err := rp.remoteClient(remote, arvados.RemoteCluster{}, tok)
		o := "None"
		if err == nil {
			o = "(Some " + gStr(kc.Arvados.ApiToken) + ")"
		}
		if base.Arvados.ApiToken != "xxx" {
			t.Fatalf("shared client's token was modified")
		}
		term := fmt.Sprintf("CRemote %s %s %s", gStr(tok), gStr(remote), o)
		desc := map[string]interface{}{"index": i, "kind": "keepstore-remote-client", "token": tok, "remote": remote, "error": fmt.Sprint(err), "token_out": o}
		cs.Add(i, term, desc, true, "shape="+kind, fmt.Sprintf("remote-client-error=%v", err != nil))
	}
	cs.Write()
}
