//go:build verif

package main

// C19 harness 4: keepstore remoteProxy.remoteClient — the token handed to the remote cluster (CRemote) — and
// remoteProxy.Get for a locator with a remote hint, the remote cluster's keep client sending through a
// recording HTTP client (CKsGet): everything that is sent to the remote cluster's keep services.

import (
	"context"
	"fmt"
	"net/http"
	"net/http/httptest"
	"os"
	"strings"
	"testing"

	"git.arvados.org/arvados.git/sdk/go/arvados"
	"git.arvados.org/arvados.git/sdk/go/arvadosclient"
	"git.arvados.org/arvados.git/sdk/go/keepclient"
)

func TestVerifC19KS(t *testing.T) {
	seed := vSeed()
	n := vEnvInt("VERIF_N", 300)
	only := vOnly()
	stage := os.Getenv("VERIF_STAGE")
	if stage == "" {
		stage = "c19ks"
	}
	cs := vNewCases(stage)
	for i := 0; i < n; i++ {
		if only >= 0 && i != only {
			continue
		}
		r := vCaseRand(seed, i)
		if i%3 == 2 {
			c19KsGetCase(t, cs, i, r)
			continue
		}
		remote := c19Remote(r)
		tok, kind := c19Token(r, remote)
		base := &keepclient.KeepClient{Arvados: &arvadosclient.ArvadosClient{ApiToken: "xxx"}}
		rp := &remoteProxy{clients: map[string]*keepclient.KeepClient{remote: base}}
		kc, err := rp.remoteClient(remote, arvados.RemoteCluster{}, tok)
		o := "None"
		if err == nil {
			o = "(Some " + gStr(kc.Arvados.ApiToken) + ")"
		}
		if base.Arvados.ApiToken != "xxx" {
			t.Fatalf("shared client's token was modified")
		}
		term := fmt.Sprintf("CRemote %s %s %s", gStr(tok), gStr(remote), o)
		desc := map[string]interface{}{"index": i, "kind": "keepstore-remote-client", "token": tok, "remote": remote, "error": fmt.Sprint(err), "token_out": o}
		cs.Add(i, term, desc, true, "shape="+kind, fmt.Sprintf("remote-client-error=%v", err != nil))
	}
	cs.Write()
}

type c19KsClient struct{ rec *c19Recorder }

func (c c19KsClient) Do(req *http.Request) (*http.Response, error) { return c.rec.RoundTrip(req) }

func c19KsGetCase(t *testing.T, cs *vCases, i int, r *vRand) {
	remote := []string{"bbbbb", "zzzzz"}[r.Intn(2)]
	tok, kind := c19Token(r, remote)
	if r.Chance(1, 3) {
		tok, _ = c19V2(r, remote)
		kind = "v2-long-secret"
	} else if r.Chance(1, 4) {
		tok, kind = c19Str(r, c19Alnum, 41+r.Intn(20)), "legacy"
	}
	if strings.ContainsAny(tok, "\r\n") || strings.TrimLeft(tok, " \t\f\v") != tok || tok == "" {
		// the Authorization header is read with ^(OAuth2|Bearer)\s+(.*): keep to tokens it returns whole
		tok, kind = c19Str(r, c19Alnum, 41+r.Intn(20)), "legacy"
	}
	rec := &c19Recorder{respond: func(req *http.Request, body string) (int, string) { return 404, "not found" }}
	base := &keepclient.KeepClient{Arvados: &arvadosclient.ArvadosClient{ApiToken: "xxx"}, HTTPClient: c19KsClient{rec}}
	roots := map[string]string{remote + "-bi6l4-000000000000000": "http://keep0.r" + remote + ".remote.example", remote + "-bi6l4-000000000000001": "http://keep1.r" + remote + ".remote.example"}
	base.SetServiceRoots(roots, roots, nil)
	rp := &remoteProxy{clients: map[string]*keepclient.KeepClient{remote: base}}
	cluster := &arvados.Cluster{ClusterID: "aaaaa", RemoteClusters: map[string]arvados.RemoteCluster{remote: {Host: "r" + remote + ".remote.example"}}}
	locator := c19Str(r, "0123456789abcdef", 32) + "+" + fmt.Sprint(1+r.Intn(1000)) + "+R" + remote + "-" + c19Str(r, "0123456789abcdef", 40) + "@" + c19Str(r, "0123456789abcdef", 8)
	if r.Chance(1, 4) {
		locator += "+A" + c19Str(r, "0123456789abcdef", 40) + "@" + c19Str(r, "0123456789abcdef", 8)
	}
	req := httptest.NewRequest("GET", "http://keep.local.example/"+locator, nil)
	req.Header["Authorization"] = []string{[]string{"Bearer ", "OAuth2 "}[r.Intn(2)] + tok}
	rw := httptest.NewRecorder()
	rp.Get(context.Background(), rw, req, cluster, nil)
	sent := rec.take()
	var sentTerms []string
	for _, s := range sent {
		if s.Header.Get("X-Request-Id") != "" {
			s.Header.Set("X-Request-Id", "req-generated") // random
		}
		parts := c19Parts(s)
		sentTerms = append(sentTerms, fmt.Sprintf("(%s, %s, %s)", gStr(remote), gStr(strings.Join(s.Header["Authorization"], "\n")), c19PartsTerm(parts)))
	}
	if base.Arvados.ApiToken != "xxx" {
		t.Fatalf("shared client's token was modified")
	}
	term := fmt.Sprintf("CKsGet %s %s %s", gStr(tok), gStr(remote), gList(sentTerms))
	desc := map[string]interface{}{"index": i, "kind": "keepstore-remote-get", "token": tok, "remote": remote, "locator": locator, "response_code": rw.Code, "sent": sent}
	cs.Add(i, term, desc, true, "get-shape="+kind, fmt.Sprintf("get-sent=%d", len(sent)), fmt.Sprintf("get-response=%d", rw.Code))
}
