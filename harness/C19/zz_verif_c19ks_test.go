//go:build verif

package main

// C19 harness 4: keepstore remoteProxy.remoteClient — the token handed to the remote cluster (CRemote) — and
// remoteProxy.Get for a locator with a remote hint, the remote cluster's keep client sending through a
// recording HTTP client (CKsGet): everything that is sent to the remote cluster's keep services.

import (
	"context"
	"fmt"
	"net/http"
	"net/http/httptest"
	"os"
	"strings"
	"testing"

	"git.arvados.org/arvados.git/sdk/go/arvados"
	"git.arvados.org/arvados.git/sdk/go/arvadosclient"
	"git.arvados.org/arvados.git/sdk/go/keepclient"
)

func TestVerifC19KS(t *testing.T) {
	seed := vSeed()
	n := vEnvInt("VERIF_N", 300)
	only := vOnly()
	stage := os.Getenv("VERIF_STAGE")
	if stage == "" {
		stage = "c19ks"
	}
	cs := vNewCases(stage)
	for i := 0; i < n; i++ {
		if only >= 0 && i != only {
			continue
		}
		r := vCaseRand(seed, i)
		if i%3 == 2 {
			if i%2 == 0 {
				c19KsPairCase(t, cs, i, r)
			} else {
				c19KsGetCase(t, cs, i, r)
			}
			continue
		}
		remote := c19Remote(r)
		tok, kind := c19Token(r, remote)
		base := &keepclient.KeepClient{Arvados: &arvadosclient.ArvadosClient{ApiToken: "xxx"}}
		rp := &remoteProxy{clients: map[string]*keepclient.KeepClient{remote: base}}
		kc, err := rp.remoteClient(remote, arvados.RemoteCluster{}, tok)
		o := "None"
		if err == nil {
			o = "(Some " + gStr(kc.Arvados.ApiToken) + ")"
		}
		sharedAfter := base.Arvados.ApiToken // internal; its effect is observed by the overlapping-requests cases
		term := fmt.Sprintf("CRemote %s %s %s", gStr(tok), gStr(remote), o)
		desc := map[string]interface{}{"index": i, "kind": "keepstore-remote-client", "token": tok, "remote": remote, "error": fmt.Sprint(err), "token_out": o, "cached_client_token_after": sharedAfter}
		cs.Add(i, term, desc, true, "shape="+kind, fmt.Sprintf("remote-client-error=%v", err != nil))
	}
	cs.Write()
}

type c19KsClient struct{ rec *c19Recorder }

func (c c19KsClient) Do(req *http.Request) (*http.Response, error) { return c.rec.RoundTrip(req) }

func c19KsGetCase(t *testing.T, cs *vCases, i int, r *vRand) {
	remote := []string{"bbbbb", "zzzzz"}[r.Intn(2)]
	tok, kind := c19Token(r, remote)
	if r.Chance(1, 3) {
		tok, _ = c19V2(r, remote)
		kind = "v2-long-secret"
	} else if r.Chance(1, 4) {
		tok, kind = c19Str(r, c19Alnum, 41+r.Intn(20)), "legacy"
	}
	if strings.ContainsAny(tok, "\r\n") || strings.TrimLeft(tok, " \t\f\v") != tok || tok == "" {
		// the Authorization header is read with ^(OAuth2|Bearer)\s+(.*): keep to tokens it returns whole
		tok, kind = c19Str(r, c19Alnum, 41+r.Intn(20)), "legacy"
	}
	rec := &c19Recorder{respond: func(req *http.Request, body string) (int, string) { return 404, "not found" }}
	base := &keepclient.KeepClient{Arvados: &arvadosclient.ArvadosClient{ApiToken: "xxx"}, HTTPClient: c19KsClient{rec}}
	roots := map[string]string{remote + "-bi6l4-000000000000000": "http://keep0.r" + remote + ".remote.example", remote + "-bi6l4-000000000000001": "http://keep1.r" + remote + ".remote.example"}
	base.SetServiceRoots(roots, roots, nil)
	rp := &remoteProxy{clients: map[string]*keepclient.KeepClient{remote: base}}
	cluster := &arvados.Cluster{ClusterID: "aaaaa", RemoteClusters: map[string]arvados.RemoteCluster{remote: {Host: "r" + remote + ".remote.example"}}}
	locator := c19Str(r, "0123456789abcdef", 32) + "+" + fmt.Sprint(1+r.Intn(1000)) + "+R" + remote + "-" + c19Str(r, "0123456789abcdef", 40) + "@" + c19Str(r, "0123456789abcdef", 8)
	if r.Chance(1, 4) {
		locator += "+A" + c19Str(r, "0123456789abcdef", 40) + "@" + c19Str(r, "0123456789abcdef", 8)
	}
	req := httptest.NewRequest("GET", "http://keep.local.example/"+locator, nil)
	req.Header["Authorization"] = []string{[]string{"Bearer ", "OAuth2 "}[r.Intn(2)] + tok}
	rw := httptest.NewRecorder()
	rp.Get(context.Background(), rw, req, cluster, nil)
	sent := rec.take()
	var sentTerms []string
	for _, s := range sent {
		if s.Header.Get("X-Request-Id") != "" {
			s.Header.Set("X-Request-Id", "req-generated") // random
		}
		parts := c19Parts(s)
		sentTerms = append(sentTerms, fmt.Sprintf("(%s, %s, %s)", gStr(remote), gStr(strings.Join(s.Header["Authorization"], "\n")), c19PartsTerm(parts)))
	}
	term := fmt.Sprintf("CKsGet %s %s %s", gStr(tok), gStr(remote), gList(sentTerms))
	desc := map[string]interface{}{"index": i, "kind": "keepstore-remote-get", "token": tok, "remote": remote, "locator": locator, "response_code": rw.Code, "sent": sent}
	cs.Add(i, term, desc, true, "get-shape="+kind, fmt.Sprintf("get-sent=%d", len(sent)), fmt.Sprintf("get-response=%d", rw.Code))
}

func c19KsToken(r *vRand, remote string) (string, string) {
	tok, kind := c19Token(r, remote)
	switch r.Intn(8) {
	case 0, 1, 2:
		tok, _ = c19V2(r, remote)
		kind = "v2-long-secret"
	case 3, 4:
		tok, kind = c19Str(r, c19Alnum, 41+r.Intn(20)), "legacy"
	case 5:
		tok, kind = "v2/ccccc-gj3su-"+c19Str(r, c19Alnum, 15)+"/"+c19Str(r, "0123456789abcdef", 40), "v2-salted-for-third-cluster"
	}
	if strings.ContainsAny(tok, "\r\n") || strings.TrimLeft(tok, " \t\f\v") != tok || tok == "" {
		tok, kind = c19Str(r, c19Alnum, 41+r.Intn(20)), "legacy"
	}
	return tok, kind
}

// Two overlapping requests through one remoteProxy (one cached keep client per remote), interleaved
// deterministically: A's first attempt reaches the remote keep service; before it is answered (503), B's whole
// request runs on the same goroutine; then A goes on to the second keep service.
func c19KsPairCase(t *testing.T, cs *vCases, i int, r *vRand) {
	remote := []string{"bbbbb", "zzzzz"}[r.Intn(2)]
	tokA, kindA := c19KsToken(r, remote)
	if r.Bool() {
		tokA, _ = c19V2(r, remote)
		kindA = "v2-long-secret"
	}
	tokB, kindB := c19KsToken(r, remote)
	cluster := &arvados.Cluster{ClusterID: "aaaaa", RemoteClusters: map[string]arvados.RemoteCluster{remote: {Host: "r" + remote + ".remote.example"}}}
	loc := func() string {
		return c19Str(r, "0123456789abcdef", 32) + "+" + fmt.Sprint(1+r.Intn(1000)) + "+R" + remote + "-" + c19Str(r, "0123456789abcdef", 40) + "@" + c19Str(r, "0123456789abcdef", 8)
	}
	locA, locB := loc(), loc()
	mkreq := func(locator, tok string, scheme string) *http.Request {
		req := httptest.NewRequest("GET", "http://keep.local.example/"+locator, nil)
		req.Header["Authorization"] = []string{scheme + tok}
		return req
	}
	schemeA, schemeB := []string{"Bearer ", "OAuth2 "}[r.Intn(2)], []string{"Bearer ", "OAuth2 "}[r.Intn(2)]
	var rp *remoteProxy
	rec := &c19Recorder{tag: "A"}
	rwB := httptest.NewRecorder()
	ranB := false
	rec.respond = func(req *http.Request, body string) (int, string) {
		if !ranB {
			ranB = true
			rec.mu.Lock()
			rec.tag = "B"
			rec.mu.Unlock()
			rp.Get(context.Background(), rwB, mkreq(locB, tokB, schemeB), cluster, nil)
			rec.mu.Lock()
			rec.tag = "A"
			rec.mu.Unlock()
			return 503, "busy"
		}
		return 404, "not found"
	}
	base := &keepclient.KeepClient{Arvados: &arvadosclient.ArvadosClient{ApiToken: "xxx"}, HTTPClient: c19KsClient{rec}}
	roots := map[string]string{remote + "-bi6l4-000000000000000": "http://keep0.r" + remote + ".remote.example", remote + "-bi6l4-000000000000001": "http://keep1.r" + remote + ".remote.example"}
	base.SetServiceRoots(roots, roots, nil)
	rp = &remoteProxy{clients: map[string]*keepclient.KeepClient{remote: base}}
	rwA := httptest.NewRecorder()
	rp.Get(context.Background(), rwA, mkreq(locA, tokA, schemeA), cluster, nil)
	if !ranB { // A sent nothing (its token cannot be salted): B runs after it
		ranB = true
		rec.mu.Lock()
		rec.tag = "B"
		rec.mu.Unlock()
		rp.Get(context.Background(), rwB, mkreq(locB, tokB, schemeB), cluster, nil)
	}
	rec.mu.Lock()
	inOrder := append([]c19Sent(nil), rec.sent...)
	rec.mu.Unlock()
	var termsA, termsB []string
	for _, s := range rec.take() {
		if s.Header.Get("X-Request-Id") != "" {
			s.Header.Set("X-Request-Id", "req-generated") // random
		}
		term := fmt.Sprintf("(%s, %s, %s)", gStr(remote), gStr(strings.Join(s.Header["Authorization"], "\n")), c19PartsTerm(c19Parts(s)))
		if s.Tag == "A" {
			termsA = append(termsA, term)
		} else {
			termsB = append(termsB, term)
		}
	}
	var order []string
	for _, s := range inOrder {
		order = append(order, s.Tag+" "+s.Host+" "+strings.Join(s.Header["Authorization"], ","))
	}
	term := fmt.Sprintf("CKsPair %s %s %s %s %s", gStr(tokA), gStr(tokB), gStr(remote), gList(termsA), gList(termsB))
	desc := map[string]interface{}{"index": i, "kind": "keepstore-remote-get, two overlapping requests (B runs while A's first attempt is at the remote)",
		"token_a": tokA, "token_b": tokB, "remote": remote, "locator_a": locA, "locator_b": locB, "response_code_a": rwA.Code, "response_code_b": rwB.Code,
		"requests_in_order": order}
	cs.Add(i, term, desc, true, "pair-shape-a="+kindA, "pair-shape-b="+kindB, fmt.Sprintf("pair-sent=%d+%d", len(termsA), len(termsB)),
		fmt.Sprintf("pair-response=%d/%d", rwA.Code, rwB.Code))
}
