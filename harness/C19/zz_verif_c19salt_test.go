//go:build verif

package auth

// C19 harness 1: exported SaltToken on all token shapes.

import (
	"fmt"
	"os"
	"testing"
)

func TestVerifC19Salt(t *testing.T) {
	seed := vSeed()
	n := vEnvInt("VERIF_N", 800)
	only := vOnly()
	stage := os.Getenv("VERIF_STAGE")
	if stage == "" {
		stage = "c19salt"
	}
	cs := vNewCases(stage)
	for i := 0; i < n; i++ {
		if only >= 0 && i != only {
			continue
		}
		r := vCaseRand(seed, i)
		remote := c19Remote(r)
		tok, kind := c19Token(r, remote)
		if os.Getenv("VERIF_TIER") == "thorough" && i < 2*5*8 {
			// exhaustive small scope: secret lengths 38..42 x {hex, non-hex} x uuid {of remote, other} x 4 remotes
			k := i
			n := 38 + k%5
			k /= 5
			al := "0123456789abcdef"
			if k%2 == 1 {
				al = c19Alnum
			}
			k /= 2
			remote = []string{"zzzzz", "bbbbb", "", "zzzz"}[k%4]
			k /= 4
			uuid := remote + "-gj3su-000000000000000"
			if k%2 == 1 {
				uuid = "aaaaa-gj3su-000000000000000"
			}
			s := c19Str(r, al, n)
			if al == c19Alnum {
				s = s[:n-1] + "z"
			}
			tok, kind = "v2/"+uuid+"/"+s, fmt.Sprintf("exhaustive-len-%d", n)
		}
		out, err := SaltToken(tok, remote)
		// deterministic
		out2, err2 := SaltToken(tok, remote)
		if out != out2 || err != err2 {
			t.Fatalf("SaltToken not deterministic on %q", tok)
		}
		o := gSaltErr(err, out, ErrObsoleteToken, ErrTokenFormat, ErrSalted)
		term := fmt.Sprintf("CSalt %s %s %s", gStr(tok), gStr(remote), o)
		desc := map[string]interface{}{"index": i, "kind": "salt", "token": tok, "remote": remote, "result": o, "shape": kind}
		res := "salted"
		if err != nil {
			res = err.Error()
		} else if out == tok {
			res = "unchanged"
		}
		cs.Add(i, term, desc, true, "shape="+kind, "result="+res)
	}
	cs.Write()
}
