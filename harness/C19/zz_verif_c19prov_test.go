//go:build verif

package federation

// C19 harness 2: the real saltedTokenProvider with a stub local backend.

import (
	"context"
	"errors"
	"fmt"
	"net/url"
	"os"
	"strings"
	"testing"

	"git.arvados.org/arvados.git/sdk/go/arvados"
	"git.arvados.org/arvados.git/sdk/go/auth"
)

type c19HTTPErr struct{ code int }

func (e c19HTTPErr) Error() string   { return fmt.Sprintf("stub error %d", e.code) }
func (e c19HTTPErr) HTTPStatus() int { return e.code }

type c19Aca struct {
	kind      int // 0 unauthorized, 1 error, 2 ok
	uuid, api string
	errcode   int
}

type c19Local struct {
	arvados.API
	tab   map[string]c19Aca
	calls []string
	bad   string
}

func (l *c19Local) BaseURL() url.URL { return url.URL{} }
func (l *c19Local) APIClientAuthorizationCurrent(ctx context.Context, opts arvados.GetOptions) (arvados.APIClientAuthorization, error) {
	creds, ok := auth.FromContext(ctx)
	if !ok || len(creds.Tokens) != 1 {
		l.bad = "local backend called without exactly one token"
		return arvados.APIClientAuthorization{}, errors.New("bad call")
	}
	tok := creds.Tokens[0]
	l.calls = append(l.calls, tok)
	a, ok := l.tab[tok]
	if !ok {
		return arvados.APIClientAuthorization{}, errors.New("not in table")
	}
	switch a.kind {
	case 0:
		return arvados.APIClientAuthorization{}, c19HTTPErr{401}
	case 1:
		if a.errcode == 0 {
			return arvados.APIClientAuthorization{}, errors.New("plain error")
		}
		return arvados.APIClientAuthorization{}, c19HTTPErr{a.errcode}
	}
	return arvados.APIClientAuthorization{UUID: a.uuid, APIToken: a.api}, nil
}

func TestVerifC19Prov(t *testing.T) {
	seed := vSeed()
	n := vEnvInt("VERIF_N", 500)
	only := vOnly()
	stage := os.Getenv("VERIF_STAGE")
	if stage == "" {
		stage = "c19prov"
	}
	cs := vNewCases(stage)
	for i := 0; i < n; i++ {
		if only >= 0 && i != only {
			continue
		}
		r := vCaseRand(seed, i)
		remote := c19Remote(r)
		ntok := []int{0, 1, 1, 1, 2, 2, 3, 4}[r.Intn(8)]
		var toks []string
		var tags []string
		local := &c19Local{tab: map[string]c19Aca{}}
		var tabTerms []string
		for k := 0; k < ntok; k++ {
			tok, kind := c19Token(r, remote)
			if r.Chance(1, 3) {
				tok, kind = c19Str(r, c19Alnum, 41+r.Intn(10)), "legacy"
			}
			if r.Chance(1, 4) {
				tok, _ = c19V2(r, remote)
				kind = "v2-long-secret"
			}
			toks = append(toks, tok)
			tags = append(tags, "shape="+kind)
			if kind == "legacy" {
				var a c19Aca
				var term string
				switch r.Intn(8) {
				case 0:
					a, term = c19Aca{kind: 0}, "AcaUnauthorized"
				case 1:
					a, term = c19Aca{kind: 1, errcode: []int{0, 500, 403, 404}[r.Intn(4)]}, "AcaError"
				default:
					a = c19Aca{kind: 2, uuid: c19UUID(r, remote), api: tok}
					switch r.Intn(8) {
					case 0:
						a.api = c19Str(r, "0123456789abcdef", 40) // resolved secret looks salted
					case 1:
						a.api = c19Str(r, c19Alnum, 30+r.Intn(30))
					case 2:
						a.api = tok + "/x"
					}
					term = fmt.Sprintf("AcaOk %s %s", gStr(a.uuid), gStr(a.api))
				}
				if _, dup := local.tab[tok]; !dup {
					local.tab[tok] = a
					tabTerms = append(tabTerms, fmt.Sprintf("(%s, %s)", gStr(tok), term))
					tags = append(tags, "local="+strings.Fields(term)[0])
				}
			}
		}
		ctx := context.Background()
		credsTerm := "None"
		if !r.Chance(1, 15) {
			ctx = auth.NewContext(ctx, &auth.Credentials{Tokens: toks})
			credsTerm = "(Some " + gStrs(toks) + ")"
		}
		out, err := saltedTokenProvider(local, remote)(ctx)
		if local.bad != "" {
			t.Fatal(local.bad)
		}
		o := "None"
		if err == nil {
			o = "(Some " + gStrs(out) + ")"
			if len(out) != len(toks) && credsTerm != "None" {
				// reported through the term: list lengths differ
			}
		}
		term := fmt.Sprintf("CProv %s %s %s %s", gStr(remote), credsTerm, gList(tabTerms), o)
		desc := map[string]interface{}{"index": i, "kind": "provider", "remote": remote, "tokens": toks, "has_credentials": credsTerm != "None",
			"forwarded": out, "error": fmt.Sprint(err), "local_calls": local.calls}
		tags = append(tags, fmt.Sprintf("tokens=%d", ntok), fmt.Sprintf("provider-error=%v", err != nil))
		cs.Add(i, term, desc, ntok > 0 && credsTerm != "None", tags...)
	}
	cs.Write()
}
