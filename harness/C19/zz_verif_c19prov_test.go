//go:build verif

package federation

// C19 harness 2: the real saltedTokenProvider with a stub local backend (CProv), and the real federation.Conn
// (stub local backend, real rpc.Conn remotes bbbbb and zzzzz whose HTTP transport records instead of sending):
//   CCrc:  Conn.ContainerRequestCreate with every combination of token origin (issued here / elsewhere, v2 /
//          legacy), user origin, scopes, explicit runtime_token, target cluster; the request on the wire is
//          taken apart, the forwarded runtime_token is read back from its body.
//   CConn: other Conn methods that reach a remote (get/update by uuid, collection by PDH, user get/list with a
//          login cluster): everything sent to a remote is recorded.

import (
	"context"
	"encoding/json"
	"errors"
	"fmt"
	"net/http"
	"net/url"
	"os"
	"strings"
	"testing"

	"git.arvados.org/arvados.git/lib/controller/rpc"
	"git.arvados.org/arvados.git/sdk/go/arvados"
	"git.arvados.org/arvados.git/sdk/go/auth"
)

type c19HTTPErr struct{ code int }

func (e c19HTTPErr) Error() string   { return fmt.Sprintf("stub error %d", e.code) }
func (e c19HTTPErr) HTTPStatus() int { return e.code }

type c19Aca struct {
	kind      int // 0 unauthorized, 1 error, 2 ok
	uuid, api string
	errcode   int
}

type c19Local struct {
	arvados.API
	tab   map[string]c19Aca
	calls []string
	bad   string
}

func (l *c19Local) BaseURL() url.URL { return url.URL{} }
func (l *c19Local) APIClientAuthorizationCurrent(ctx context.Context, opts arvados.GetOptions) (arvados.APIClientAuthorization, error) {
	creds, ok := auth.FromContext(ctx)
	if !ok || len(creds.Tokens) != 1 {
		l.bad = "local backend called without exactly one token"
		return arvados.APIClientAuthorization{}, errors.New("bad call")
	}
	tok := creds.Tokens[0]
	l.calls = append(l.calls, tok)
	a, ok := l.tab[tok]
	if !ok {
		return arvados.APIClientAuthorization{}, errors.New("not in table")
	}
	switch a.kind {
	case 0:
		return arvados.APIClientAuthorization{}, c19HTTPErr{401}
	case 1:
		if a.errcode == 0 {
			return arvados.APIClientAuthorization{}, errors.New("plain error")
		}
		return arvados.APIClientAuthorization{}, c19HTTPErr{a.errcode}
	}
	return arvados.APIClientAuthorization{UUID: a.uuid, APIToken: a.api}, nil
}

func TestVerifC19Prov(t *testing.T) {
	seed := vSeed()
	n := vEnvInt("VERIF_N", 500)
	only := vOnly()
	stage := os.Getenv("VERIF_STAGE")
	if stage == "" {
		stage = "c19prov"
	}
	cs := vNewCases(stage)
	for i := 0; i < n; i++ {
		if only >= 0 && i != only {
			continue
		}
		r := vCaseRand(seed, i)
		if i%3 == 2 {
			if i%2 == 0 || i%9 == 5 {
				c19CrcCase(t, cs, i, r)
			} else {
				c19ConnCase(t, cs, i, r)
			}
			continue
		}
		remote := c19Remote(r)
		ntok := []int{0, 1, 1, 1, 2, 2, 3, 4}[r.Intn(8)]
		var toks []string
		var tags []string
		local := &c19Local{tab: map[string]c19Aca{}}
		var tabTerms []string
		for k := 0; k < ntok; k++ {
			tok, kind := c19Token(r, remote)
			if r.Chance(1, 3) {
				tok, kind = c19Str(r, c19Alnum, 41+r.Intn(10)), "legacy"
			}
			if r.Chance(1, 4) {
				tok, _ = c19V2(r, remote)
				kind = "v2-long-secret"
			}
			toks = append(toks, tok)
			tags = append(tags, "shape="+kind)
			if kind == "legacy" {
				var a c19Aca
				var term string
				switch r.Intn(8) {
				case 0:
					a, term = c19Aca{kind: 0}, "AcaUnauthorized"
				case 1:
					a, term = c19Aca{kind: 1, errcode: []int{0, 500, 403, 404}[r.Intn(4)]}, "AcaError"
				default:
					a = c19Aca{kind: 2, uuid: c19UUID(r, remote), api: tok}
					switch r.Intn(8) {
					case 0:
						a.api = c19Str(r, "0123456789abcdef", 40) // resolved secret looks salted
					case 1:
						a.api = c19Str(r, c19Alnum, 30+r.Intn(30))
					case 2:
						a.api = tok + "/x"
					}
					term = fmt.Sprintf("AcaOk %s %s", gStr(a.uuid), gStr(a.api))
				}
				if _, dup := local.tab[tok]; !dup {
					local.tab[tok] = a
					tabTerms = append(tabTerms, fmt.Sprintf("(%s, %s)", gStr(tok), term))
					tags = append(tags, "local="+strings.Fields(term)[0])
				}
			}
		}
		ctx := context.Background()
		credsTerm := "None"
		if !r.Chance(1, 15) {
			ctx = auth.NewContext(ctx, &auth.Credentials{Tokens: toks})
			credsTerm = "(Some " + gStrs(toks) + ")"
		}
		out, err := saltedTokenProvider(local, remote)(ctx)
		o := "None"
		if local.bad != "" {
			// the local backend was not asked with exactly the one token: reported as an output no model produces
			out, err = []string{"[" + local.bad + "]"}, nil
		}
		if err == nil {
			o = "(Some " + gStrs(out) + ")"
			if len(out) != len(toks) && credsTerm != "None" {
				// reported through the term: list lengths differ
			}
		}
		term := fmt.Sprintf("CProv %s %s %s %s", gStr(remote), credsTerm, gList(tabTerms), o)
		desc := map[string]interface{}{"index": i, "kind": "provider", "remote": remote, "tokens": toks, "has_credentials": credsTerm != "None",
			"forwarded": out, "error": fmt.Sprint(err), "local_calls": local.calls}
		tags = append(tags, fmt.Sprintf("tokens=%d", ntok), fmt.Sprintf("provider-error=%v", err != nil))
		cs.Add(i, term, desc, ntok > 0 && credsTerm != "None", tags...)
	}
	cs.Write()
}

// ---- the real federation.Conn over a recording transport ----

type c19Who struct {
	ok         bool // the token is known to the local cluster
	uuid, api  string
	scopes     []string
	lookupKind int // what the provider's lookup of a legacy token gets: 0 unauthorized, 1 error, 2 ok
}

type c19ConnLocal struct {
	arvados.API
	who        map[string]c19Who // by first token of the context
	user       string            // uuid of the current user; "" = error
	localCalls []string
	bad        string
}

func (l *c19ConnLocal) BaseURL() url.URL { return url.URL{} }
func (l *c19ConnLocal) first(ctx context.Context) (string, bool) {
	creds, ok := auth.FromContext(ctx)
	if !ok || len(creds.Tokens) == 0 {
		return "", false
	}
	return creds.Tokens[0], true
}
func (l *c19ConnLocal) APIClientAuthorizationCurrent(ctx context.Context, opts arvados.GetOptions) (arvados.APIClientAuthorization, error) {
	tok, ok := l.first(ctx)
	if !ok {
		return arvados.APIClientAuthorization{}, c19HTTPErr{401}
	}
	w, known := l.who[tok]
	if !known || !w.ok {
		if known && w.lookupKind == 0 {
			return arvados.APIClientAuthorization{}, c19HTTPErr{401}
		}
		return arvados.APIClientAuthorization{}, c19HTTPErr{500}
	}
	return arvados.APIClientAuthorization{UUID: w.uuid, APIToken: w.api, Scopes: w.scopes}, nil
}
func (l *c19ConnLocal) UserGetCurrent(ctx context.Context, opts arvados.GetOptions) (arvados.User, error) {
	if l.user == "" {
		return arvados.User{}, c19HTTPErr{401}
	}
	return arvados.User{UUID: l.user, IsActive: true}, nil
}
func (l *c19ConnLocal) ContainerRequestCreate(ctx context.Context, opts arvados.CreateOptions) (arvados.ContainerRequest, error) {
	l.localCalls = append(l.localCalls, "ContainerRequestCreate")
	return arvados.ContainerRequest{UUID: "aaaaa-xvhdp-000000000000000"}, nil
}
func (l *c19ConnLocal) CollectionGet(ctx context.Context, opts arvados.GetOptions) (arvados.Collection, error) {
	l.localCalls = append(l.localCalls, "CollectionGet")
	return arvados.Collection{}, c19HTTPErr{404}
}
func (l *c19ConnLocal) UserBatchUpdate(ctx context.Context, opts arvados.UserBatchUpdateOptions) (arvados.UserList, error) {
	l.localCalls = append(l.localCalls, "UserBatchUpdate")
	if tok, _ := l.first(ctx); tok != c19RootToken {
		l.bad = "UserBatchUpdate called without the system root token"
	}
	return arvados.UserList{}, nil
}

const c19RootToken = "systemroottokensystemroottokensystemroottoken0000019"

var c19ConnRemotes = []string{"bbbbb", "zzzzz"}

func c19RemoteHost(id string) string { return "r" + id + ".remote.example" }

// c19NewConn builds a Conn as federation.New does, with the stub as local backend; rpc.NewConn takes
// http.DefaultTransport at construction time, which is the recorder while this function runs
func c19NewConn(rec *c19Recorder, local *c19ConnLocal, loginCluster string) *Conn {
	cluster := &arvados.Cluster{ClusterID: "aaaaa", SystemRootToken: c19RootToken, RemoteClusters: map[string]arvados.RemoteCluster{}}
	cluster.Login.LoginCluster = loginCluster
	saved := http.DefaultTransport
	http.DefaultTransport = rec
	defer func() { http.DefaultTransport = saved }()
	remotes := map[string]backend{}
	for _, id := range c19ConnRemotes {
		cluster.RemoteClusters[id] = arvados.RemoteCluster{Host: c19RemoteHost(id), Scheme: "http", Proxy: true}
		rc := rpc.NewConn(id, &url.URL{Scheme: "http", Host: c19RemoteHost(id)}, false, saltedTokenProvider(local, id))
		rc.SendHeader = http.Header{"Via": {"HTTP/1.1 arvados-controller"}}
		remotes[id] = rc
	}
	return &Conn{cluster: cluster, local: local, remotes: remotes}
}

func c19Recover(f func()) (panicked string) {
	defer func() {
		if p := recover(); p != nil {
			panicked = fmt.Sprint(p)
		}
	}()
	f()
	return ""
}

func c19ConnDest(host string) string {
	for _, id := range c19ConnRemotes {
		if host == c19RemoteHost(id) {
			return id
		}
	}
	return "?" + host
}

// the caller's tokens with what the local cluster knows about them
type c19Caller struct {
	tokens   []string
	who      map[string]c19Who
	tabTerms []string // provider lookups of legacy tokens, as in CProv
	origin   string
	secrets  []string // the unsalted secrets that must not reach any remote: v2 secrets, and legacy tokens issued by this cluster
	local    []string // those of tokens issued by this cluster (uuid aaaaa-...)
}

func c19GenCaller(r *vRand) *c19Caller {
	c := &c19Caller{who: map[string]c19Who{}}
	other := []string{"bbbbb", "zzzzz", "ccccc"}[r.Intn(3)]
	scopes := [][]string{{"all"}, {"all"}, {"all"}, {"all"}, {"all"}, {}, {"GET /arvados/v1/users/current"}, {"all", "GET /"}}[r.Intn(8)]
	var tok string
	var w c19Who
	switch k := r.Intn(10); {
	case k < 4: // issued here, v2
		uuid, secret := "aaaaa-gj3su-"+c19Str(r, c19Alnum, 15), c19Str(r, c19Alnum, 41+r.Intn(20))
		tok, w, c.origin = "v2/"+uuid+"/"+secret, c19Who{ok: true, uuid: uuid, api: secret, scopes: scopes}, "local-v2"
		if r.Chance(1, 5) {
			tok += "/" + other + "-dz642-" + c19Str(r, c19Alnum, 15) // container uuid suffix
		}
		c.secrets, c.local = append(c.secrets, secret), append(c.local, secret)
	case k < 6: // issued elsewhere, as seen here: salted for this cluster
		uuid, salt := other+"-gj3su-"+c19Str(r, c19Alnum, 15), c19Str(r, "0123456789abcdef", 40)
		tok, w, c.origin = "v2/"+uuid+"/"+salt, c19Who{ok: true, uuid: uuid, api: salt, scopes: scopes}, "foreign-salted"
	case k < 7: // issued elsewhere, unsalted secret
		uuid, secret := other+"-gj3su-"+c19Str(r, c19Alnum, 15), c19Str(r, c19Alnum, 41+r.Intn(20))
		tok, w, c.origin = "v2/"+uuid+"/"+secret, c19Who{ok: true, uuid: uuid, api: secret, scopes: scopes}, "foreign-unsalted"
		c.secrets = append(c.secrets, secret)
	case k < 9: // legacy format, known here
		tok = c19Str(r, c19Alnum, 41+r.Intn(15))
		uuid := "aaaaa-gj3su-" + c19Str(r, c19Alnum, 15)
		c.origin = "legacy-local"
		if r.Chance(1, 3) {
			uuid, c.origin = other+"-gj3su-"+c19Str(r, c19Alnum, 15), "legacy-foreign"
		}
		w = c19Who{ok: true, uuid: uuid, api: tok, scopes: scopes, lookupKind: 2}
		c.tabTerms = append(c.tabTerms, fmt.Sprintf("(%s, AcaOk %s %s)", gStr(tok), gStr(uuid), gStr(tok)))
		if c.origin == "legacy-local" { // a legacy token of another cluster is passed on as it is when it belongs to the target
			c.secrets, c.local = append(c.secrets, tok), append(c.local, tok)
		}
	default: // not known here
		switch r.Intn(3) {
		case 0:
			tok, w, c.origin = c19Str(r, c19Alnum, 41+r.Intn(15)), c19Who{lookupKind: 0}, "legacy-unknown-401"
			c.tabTerms = append(c.tabTerms, fmt.Sprintf("(%s, AcaUnauthorized)", gStr(tok)))
		case 1:
			tok, w, c.origin = c19Str(r, c19Alnum, 41+r.Intn(15)), c19Who{lookupKind: 1}, "legacy-unknown-error"
			c.tabTerms = append(c.tabTerms, fmt.Sprintf("(%s, AcaError)", gStr(tok)))
		default:
			secret := c19Str(r, c19Alnum, 41+r.Intn(20))
			tok, w, c.origin = "v2/aaaaa-gj3su-"+c19Str(r, c19Alnum, 15)+"/"+secret, c19Who{}, "v2-unknown"
			c.secrets, c.local = append(c.secrets, secret), append(c.local, secret)
		}
	}
	c.tokens = []string{tok}
	c.who[tok] = w
	if r.Chance(1, 3) { // a reader token
		t2, s2 := c19V2(r, other)
		if r.Chance(1, 3) {
			t2, s2 = "v2/"+other+"-gj3su-"+c19Str(r, c19Alnum, 15)+"/"+c19Str(r, "0123456789abcdef", 40), ""
		}
		c.tokens = append(c.tokens, t2)
		if s2 != "" {
			c.secrets = append(c.secrets, s2)
			if strings.HasPrefix(t2, "v2/aaaaa") {
				c.local = append(c.local, s2)
			}
		}
	}
	return c
}

func c19SentTerm(s c19Sent) (string, []c19Part) {
	parts := c19Parts(s)
	return fmt.Sprintf("(%s, %s, %s)", gStr(c19ConnDest(s.Host)), gStr(s.Header.Get("Authorization")), c19PartsTerm(parts)), parts
}

func c19CrcCase(t *testing.T, cs *vCases, i int, r *vRand) {
	caller := c19GenCaller(r)
	local := &c19ConnLocal{who: caller.who}
	userOrigin := "local"
	switch r.Intn(8) {
	case 0:
		userOrigin = "error"
	case 1, 2, 3:
		userOrigin = []string{"bbbbb", "zzzzz", "ccccc"}[r.Intn(3)]
		local.user = userOrigin + "-tpzed-" + c19Str(r, c19Alnum, 15)
	default:
		local.user = "aaaaa-tpzed-" + c19Str(r, c19Alnum, 15)
	}
	target := []string{"bbbbb", "zzzzz", "bbbbb", "zzzzz", "bbbbb", "zzzzz", "bbbbb", "zzzzz", "aaaaa", "", "ccccc", "zzzz", "zzzzz-xvhdp-012345678901234"}[r.Intn(13)]
	attrs := map[string]interface{}{"command": []string{"echo", "ok"}, "container_image": "arvados/jobs", "cwd": "/", "output_path": "/out"}
	rtTerm := "None"
	var rtGiven interface{}
	// half of the cases: the stratum in which the decision about the runtime_token is reached (remote target,
	// token known here with scope "all", user known, no explicit runtime_token), token origin x user origin free
	decisive := r.Bool()
	if decisive {
		target = c19ConnRemotes[r.Intn(2)]
		if w := caller.who[caller.tokens[0]]; w.ok {
			w.scopes = [][]string{{"all"}, {"all", "GET /"}}[r.Intn(2)]
			caller.who[caller.tokens[0]] = w
		}
		if local.user == "" {
			userOrigin = []string{"aaaaa", "zzzzz"}[r.Intn(2)]
			local.user = userOrigin + "-tpzed-" + c19Str(r, c19Alnum, 15)
			if userOrigin == "aaaaa" {
				userOrigin = "local"
			}
		}
	} else if r.Chance(1, 3) {
		rt := "v2/aaaaa-gj3su-" + c19Str(r, c19Alnum, 15) + "/" + c19Str(r, c19Alnum, 50)
		if r.Chance(1, 4) {
			rt = ""
		}
		attrs["runtime_token"] = rt
		rtGiven = rt
		rtTerm = "(Some " + gStr(rt) + ")"
	}
	rec := &c19Recorder{respond: func(req *http.Request, body string) (int, string) {
		return 200, `{"kind":"arvados#containerRequest","uuid":"zzzzz-xvhdp-000000000000000"}`
	}}
	conn := c19NewConn(rec, local, "")
	ctx := auth.NewContext(context.Background(), &auth.Credentials{Tokens: caller.tokens})
	ctx = arvados.ContextWithRequestID(ctx, "req-"+c19Str(r, c19Alnum, 8))
	var err error
	if p := c19Recover(func() { _, err = conn.ContainerRequestCreate(ctx, arvados.CreateOptions{ClusterID: target, Attrs: attrs}) }); p != "" {
		err = errors.New("panic: " + p)
	}
	sent := rec.take()
	// anything unexpected is reported through the observation (it then disagrees with the model), never by
	// failing the harness; the search covers every request that was sent
	oSent, oAuth, oRT := len(sent) > 0, "", "None"
	var parts []c19Part
	var rtSeen interface{}
	for _, s := range sent {
		parts = append(parts, c19Parts(s)...)
	}
	if len(sent) > 1 {
		oAuth = fmt.Sprintf("[%d requests sent]", len(sent))
	} else if oSent {
		oAuth = sent[0].Header.Get("Authorization")
		var cr map[string]interface{}
		form, perr := url.ParseQuery(sent[0].Body)
		if perr != nil {
			oRT = "(Some " + gStr("[unparseable body]") + ")"
		} else if jerr := json.Unmarshal([]byte(form.Get("container_request")), &cr); jerr != nil {
			oRT = "(Some " + gStr("[unparseable container_request]") + ")"
		} else if v, ok := cr["runtime_token"]; ok {
			rtSeen = v
			if sv, ok := v.(string); ok {
				oRT = "(Some " + gStr(sv) + ")"
			} else {
				oRT = "(Some " + gStr(fmt.Sprintf("[not a string: %v]", v)) + ")"
			}
		}
	}
	w := caller.who[caller.tokens[0]]
	acaTerm := "None"
	if w.ok {
		acaTerm = fmt.Sprintf("(Some (%s, %s, %s))", gStr(w.uuid), gStr(w.api), gStrs(w.scopes))
	}
	userTerm := "None"
	if local.user != "" {
		userTerm = "(Some " + gStr(local.user) + ")"
	}
	term := fmt.Sprintf("CCrc \"aaaaa\" %s %s %s %s %s %s %s %s %s %s %s", gStrs(c19ConnRemotes), gStr(target), gStrs(caller.tokens), gList(caller.tabTerms),
		rtTerm, acaTerm, userTerm, gBool(oSent), gStr(oAuth), oRT, c19PartsTerm(parts))
	leaks := c19Leaks(caller.local, parts)
	desc := map[string]interface{}{"index": i, "kind": "Conn.ContainerRequestCreate", "cluster_id": target, "tokens": caller.tokens, "token_origin": caller.origin,
		"token_record": map[string]interface{}{"known": w.ok, "uuid": w.uuid, "api_token": w.api, "scopes": w.scopes}, "user_uuid": local.user,
		"runtime_token_given": rtGiven, "error": fmt.Sprint(err), "sent": sent, "runtime_token_sent": rtSeen, "local_calls": local.localCalls,
		"secrets_of_local_tokens": caller.local, "local_secret_found_in": c19LeakList(leaks)}
	cs.Add(i, term, desc, true, "crc-token="+caller.origin, "crc-user="+userOrigin, fmt.Sprintf("crc-sent=%v", oSent), fmt.Sprintf("crc-rt-given=%v", rtTerm != "None"),
		fmt.Sprintf("crc-target-remote=%v", target == "bbbbb" || target == "zzzzz"), fmt.Sprintf("crc-scope-all=%v", len(w.scopes) > 0 && w.scopes[0] == "all"), fmt.Sprintf("crc-leak=%v", len(leaks) > 0), fmt.Sprintf("crc-decisive=%v/token=%s/user=%s", decisive, map[bool]string{true: "here", false: "elsewhere"}[strings.HasPrefix(w.uuid, "aaaaa")], userOrigin))
}

func c19ConnCase(t *testing.T, cs *vCases, i int, r *vRand) {
	caller := c19GenCaller(r)
	local := &c19ConnLocal{who: caller.who, user: "aaaaa-tpzed-" + c19Str(r, c19Alnum, 15)}
	dest := c19ConnRemotes[r.Intn(2)]
	rec := &c19Recorder{respond: func(req *http.Request, body string) (int, string) {
		segs := strings.Split(req.URL.Path, "/")
		last := segs[len(segs)-1]
		if len(last) == 27 {
			return 200, `{"uuid":"` + last + `"}`
		}
		return 200, `{"items":[{"uuid":"zzzzz-tpzed-000000000000000"}]}`
	}}
	ctx := auth.NewContext(context.Background(), &auth.Credentials{Tokens: caller.tokens})
	ctx = arvados.ContextWithRequestID(ctx, "req-"+c19Str(r, c19Alnum, 8))
	uuid := func(infix string) string { return dest + "-" + infix + "-" + c19Str(r, c19Alnum, 15) }
	login := ""
	var method string
	var err error
	k := r.Intn(10)
	if k == 7 {
		login = dest
	}
	conn := c19NewConn(rec, local, login)
	switch k {
	case 0:
		method = "CollectionGet(uuid)"
		_, err = conn.CollectionGet(ctx, arvados.GetOptions{UUID: uuid("4zz18")})
	case 1:
		method = "CollectionGet(pdh)"
		_, err = conn.CollectionGet(ctx, arvados.GetOptions{UUID: c19Str(r, "0123456789abcdef", 32) + "+" + fmt.Sprint(r.Intn(1000))})
	case 2:
		method = "ContainerRequestGet"
		_, err = conn.ContainerRequestGet(ctx, arvados.GetOptions{UUID: uuid("xvhdp"), Select: []string{"uuid", "name"}})
	case 3:
		method = "ContainerRequestUpdate"
		_, err = conn.ContainerRequestUpdate(ctx, arvados.UpdateOptions{UUID: uuid("xvhdp"), Attrs: map[string]interface{}{"priority": 1, "name": "x y"}})
	case 4:
		method = "ContainerGet"
		_, err = conn.ContainerGet(ctx, arvados.GetOptions{UUID: uuid("dz642")})
	case 5:
		method = "GroupGet"
		_, err = conn.GroupGet(ctx, arvados.GetOptions{UUID: uuid("j7d0g")})
	case 6:
		method = "UserGet"
		_, err = conn.UserGet(ctx, arvados.GetOptions{UUID: uuid("tpzed")})
	case 7:
		method = "UserList(login cluster)"
		_, err = conn.UserList(ctx, arvados.ListOptions{Limit: -1})
	case 8:
		method = "UserUpdate"
		_, err = conn.UserUpdate(ctx, arvados.UpdateOptions{UUID: uuid("tpzed"), Attrs: map[string]interface{}{"prefs": map[string]interface{}{"a": 1}}})
	default:
		method = "CollectionUpdate"
		_, err = conn.CollectionUpdate(ctx, arvados.UpdateOptions{UUID: uuid("4zz18"), Attrs: map[string]interface{}{"name": "n"}})
	}
	sent := rec.take()
	if local.bad != "" { // the root token was not what the local cluster was called with: shows in the description and as a request no model explains
		sent = append(sent, c19Sent{Host: c19RemoteHost(dest), Method: "HARNESS", Path: "/" + local.bad, Header: http.Header{}})
	}
	secrets := append([]string{c19RootToken}, caller.secrets...)
	var sentTerms []string
	leaks := map[string]bool{}
	for _, s := range sent {
		st, parts := c19SentTerm(s)
		sentTerms = append(sentTerms, st)
		for k := range c19Leaks(secrets, parts) {
			leaks[k] = true
		}
	}
	term := fmt.Sprintf("CConn %s %s %s %s", gStrs(caller.tokens), gList(caller.tabTerms), gStrs(secrets), gList(sentTerms))
	desc := map[string]interface{}{"index": i, "kind": "Conn." + method, "tokens": caller.tokens, "token_origin": caller.origin, "error": fmt.Sprint(err), "sent": sent,
		"local_calls": local.localCalls, "secret_found_in": c19LeakList(leaks), "secrets": secrets}
	cs.Add(i, term, desc, len(sent) > 0, "conn-method="+method, "conn-token="+caller.origin, fmt.Sprintf("conn-sent=%d", len(sent)), fmt.Sprintf("conn-leak=%v", len(leaks) > 0))
}
