From Coq Require Import List Arith Bool Lia.
Import ListNotations.
Require Import RunQueue.

(* every event appended by the loop concerns an entry that is not reported running,
   has priority >= 1, and a Start is only issued for a Locked entry *)
Definition ok_ev (running : list nat) (ents : list ent) (e : ev) : Prop :=
  match e with
  | EStart it u _ => exists x, In x ents /\ e_uuid x = u /\ e_it x = it /\ e_state x = 1 /\
                               1 <= e_prio x /\ mem u running = false
  | EKill u => exists x, In x ents /\ e_uuid x = u /\ 1 <= e_prio x /\ mem u running = false
  | _ => True
  end.

Lemma Forall_app_one {A} (P : A -> Prop) l x : Forall P l -> P x -> Forall P (l ++ [x]).
Proof. intros; apply Forall_app; split; auto. Qed.

Lemma loop_events running atQuota createOK killable ents :
  forall l s, (forall x, In x l -> In x ents) ->
  Forall (ok_ev running ents) (log s) ->
  Forall (ok_ev running ents) (log (fst (loop running atQuota createOK killable l s))).
Proof.
  induction l as [|e r IH]; intros s Hsub Hlog; cbn [loop]; [exact Hlog|].
  assert (Hr : forall x, In x r -> In x ents) by (intros; apply Hsub; right; auto).
  assert (He : In e ents) by (apply Hsub; left; reflexivity).
  destruct (mem (e_uuid e) running || (e_prio e <? 1)) eqn:Hskip; [apply IH; auto|].
  apply orb_false_iff in Hskip. destruct Hskip as [Hrun Hprio]. apply Nat.ltb_ge in Hprio.
  assert (Hk : ok_ev running ents (EKill (e_uuid e))) by (exists e; auto).
  destruct (e_state e) as [|[|n]] eqn:Hst.
  - (* Queued *)
    destruct ((nth (e_it e) (unalloc s) 0 <? 1) && atQuota); [exact Hlog|].
    destruct (mem (e_uuid e) killable); apply IH; auto; cbn [log]; apply Forall_app_one; auto.
  - (* Locked *)
    assert (Hproceed : forall s', Forall (ok_ev running ents) (log s') ->
       Forall (ok_ev running ents) (log (fst (
         if mem (e_it e) (dontstart s') then loop running atQuota createOK killable r s'
         else if mem (e_uuid e) killable
              then loop running atQuota createOK killable r
                     {| unalloc := unalloc s'; idle := idle s'; dontstart := dontstart s';
                        log := log s' ++ [EKill (e_uuid e)]; locks := locks s' |}
              else loop running atQuota createOK killable r
                     {| unalloc := unalloc s';
                        idle := if 0 <? nth (e_it e) (idle s') 0
                                then upd (idle s') (e_it e) (nth (e_it e) (idle s') 0 - 1) else idle s';
                        dontstart := if 0 <? nth (e_it e) (idle s') 0 then dontstart s' else e_it e :: dontstart s';
                        log := (log s' ++ [EKill (e_uuid e)]) ++ [EStart (e_it e) (e_uuid e) (0 <? nth (e_it e) (idle s') 0)];
                        locks := locks s' |})))).
    { intros s' Hl'. destruct (mem (e_it e) (dontstart s')); [apply IH; auto|].
      destruct (mem (e_uuid e) killable); apply IH; auto; cbn [log].
      - apply Forall_app_one; auto.
      - apply Forall_app_one; [apply Forall_app_one; auto|].
        exists e. repeat split; auto. }
    destruct (0 <? nth (e_it e) (unalloc s) 0).
    + apply Hproceed. exact Hlog.
    + destruct atQuota.
      * cbn [fst log]. apply Forall_app_one; auto. exact I.
      * destruct (nth (e_it e) createOK false).
        -- apply Hproceed. cbn [log]. apply Forall_app_one; auto. exact I.
        -- apply IH; auto. cbn [log]. apply Forall_app_one; auto. exact I.
  - apply IH; auto.
Qed.

Lemma ins_in x y m : In x (ins y m) -> x = y \/ In x m.
Proof.
  induction m as [|z m IHm]; cbn [ins]; [intros [->|[]]; auto|].
  destruct (e_prio z <? e_prio y); cbn [In]; intros [->|Hin]; auto.
  destruct (IHm Hin); auto.
Qed.
Lemma psort_in ents x : In x (psort ents) -> In x ents.
Proof.
  unfold psort. induction ents as [|a l IHl]; cbn [fold_right]; [auto|].
  intros Hx. destruct (ins_in _ _ _ Hx) as [->|Hin]; [left; reflexivity|right; apply IHl; exact Hin].
Qed.

(* C14/C16: runQueue starts only Locked, priority >= 1 containers that the pool does not report running *)
Theorem start_only_locked_positive_not_running ents running unalloc0 atQuota createOK idle0 killable it u ok :
  let '(lg, _, _) := run_queue ents running unalloc0 atQuota createOK idle0 killable in
  In (EStart it u ok) lg ->
  exists x, In x ents /\ e_uuid x = u /\ e_it x = it /\ e_state x = 1 /\ 1 <= e_prio x /\ mem u running = false.
Proof.
  unfold run_queue.
  set (s0 := {| unalloc := unalloc0; idle := idle0; dontstart := []; log := []; locks := [] |}).
  pose proof (loop_events running atQuota createOK killable (psort ents) (psort ents) s0) as H.
  assert (Hsub : forall x, In x (psort ents) -> In x (psort ents)) by auto.
  specialize (H Hsub (Forall_nil _)).
  destruct (loop running atQuota createOK killable (psort ents) s0) as [s oq] eqn:E. cbn [fst] in H.
  assert (Hperm : forall x, In x (psort ents) -> In x ents) by (intros; apply psort_in; auto).
  assert (Hfin : forall lg, (forall e, In e lg -> In e (log s) \/ exists v, e = EUnlock v) ->
                 In (EStart it u ok) lg ->
                 exists x, In x ents /\ e_uuid x = u /\ e_it x = it /\ e_state x = 1 /\ 1 <= e_prio x /\ mem u running = false).
  { intros lg Hlg Hin. destruct (Hlg _ Hin) as [Hl|[v Hv]]; [|discriminate].
    rewrite Forall_forall in H. specialize (H _ Hl). cbn [ok_ev] in H.
    destruct H as (x & A & B & C & D & F & G). exists x. split; [apply Hperm; exact A|]. repeat split; auto. }
  destruct oq as [tail|].
  - apply Hfin. intros e Hin. apply in_app_or in Hin. destruct Hin as [?|Hin]; [left; auto|right].
    apply in_map_iff in Hin. destruct Hin as (x & <- & _). eauto.
  - apply Hfin. intros e Hin. left; exact Hin.
Qed.
Print Assumptions start_only_locked_positive_not_running.
