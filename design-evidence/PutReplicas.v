(* Prototype: sdk/go/keepclient/support.go putReplicas as a state machine with an explicit
   response oracle and completion schedule *)
From Coq Require Import List Arith Bool Lia Permutation.
Import ListNotations.

Inductive resp := R200 (stored : nat) | RRetry | RFail.
(* RRetry: status 0 (connection error), 408, 429, >= 500 except 503.  RFail: everything else. *)

Record st := { sv : list nat; next : nat; active : list nat; completed : list nat (* ghost *);
               done : nat; todo : nat; retry : list nat }.

Section PR.
Variable rpt : nat.                       (* replicasPerThread, >= 1 *)
Variable answer : nat -> nat -> resp.     (* server -> round -> response *)
Variable pick : nat -> nat.               (* k-th completion: index into the active list *)
Hypothesis rpt_pos : 1 <= rpt.

Definition remove_nth {A} (i : nat) (l : list A) : list A := firstn i l ++ skipn (S i) l.

Definition stored_of (r : resp) : nat := match r with R200 n => n | _ => 0 end.

Definition complete (round : nat) (s : st) (i : nat) : st :=
  let srv := nth i (active s) 0 in
  let r := answer srv round in
  {| sv := sv s; next := next s; active := remove_nth i (active s); completed := srv :: completed s;
     done := done s + stored_of r; todo := todo s - stored_of r;
     retry := match r with RRetry => retry s ++ [srv] | _ => retry s end |}.

Definition start (s : st) : st :=
  {| sv := sv s; next := S (next s); active := active s ++ [nth (next s) (sv s) 0]; completed := completed s;
     done := done s; todo := todo s; retry := retry s |}.

Fixpoint inner (fuel round : nat) (s : st) (k : nat) : st * nat :=
  match fuel with
  | 0 => (s, k)
  | S f =>
    if todo s =? 0 then (s, k)
    else if (length (active s) * rpt <? todo s) && (next s <? length (sv s)) then inner f round (start s) k
    else match active s with
         | [] => (s, k)
         | _ => inner f round (complete round s (pick k mod length (active s))) (S k)
         end
  end.

Inductive result := Ok (n : nat) | Insufficient (n : nat).

Fixpoint outer (rounds round : nat) (servers : list nat) (dn td k : nat) : result :=
  match rounds with
  | 0 => if td =? 0 then Ok dn else Insufficient dn
  | S r =>
    let s0 := {| sv := servers; next := 0; active := []; completed := []; done := dn; todo := td; retry := [] |} in
    let '(s, k') := inner (2 * length servers + 1) round s0 k in
    if todo s =? 0 then Ok (done s)
    else if r =? 0 then Insufficient (done s)
    else outer r (S round) (retry s) (done s) (todo s) k'
  end.

Definition put (want retries : nat) (servers : list nat) : result := outer (S retries) 0 servers 0 want 0.

(* ---------- soundness: Ok only with enough confirmed replicas ---------- *)
Definition inv_todo (want : nat) (s : st) : Prop := todo s = want - done s.

Lemma complete_todo want round s i : inv_todo want s -> inv_todo want (complete round s i).
Proof. unfold inv_todo, complete. cbn [todo done]. lia. Qed.

Lemma inner_todo want fuel round : forall s k, inv_todo want s -> inv_todo want (fst (inner fuel round s k)).
Proof.
  induction fuel as [|f IH]; intros s k H; cbn [inner]; [exact H|].
  destruct (todo s =? 0); [exact H|].
  destruct ((length (active s) * rpt <? todo s) && (next s <? length (sv s))); [apply IH; exact H|].
  destruct (active s) eqn:Ea; [exact H|]. apply IH. apply complete_todo. exact H.
Qed.

Lemma outer_sound want rounds : forall round servers dn td k n,
  td = want - dn -> outer rounds round servers dn td k = Ok n -> want <= n.
Proof.
  induction rounds as [|r IH]; intros round servers dn td k n Htd H; cbn [outer] in H.
  - destruct (td =? 0) eqn:E; [|discriminate]. apply Nat.eqb_eq in E. injection H as <-. lia.
  - set (s0 := {| sv := servers; next := 0; active := []; completed := []; done := dn; todo := td; retry := [] |}) in *.
    pose proof (inner_todo want (2 * length servers + 1) round s0 k Htd) as Hi.
    destruct (inner (2 * length servers + 1) round s0 k) as [s k'] eqn:E. cbn [fst] in Hi.
    destruct (todo s =? 0) eqn:E0.
    + apply Nat.eqb_eq in E0. injection H as <-. unfold inv_todo in Hi. lia.
    + destruct (r =? 0); [discriminate|]. eapply IH; [|exact H]. exact Hi.
Qed.

Theorem put_ok_enough want retries servers n : put want retries servers = Ok n -> want <= n.
Proof. unfold put. intros H. eapply outer_sound; [|exact H]. lia. Qed.

Lemma outer_insufficient want rounds : forall round servers dn td k n,
  td = want - dn -> outer rounds round servers dn td k = Insufficient n -> n < want.
Proof.
  induction rounds as [|r IH]; intros round servers dn td k n Htd H; cbn [outer] in H.
  - destruct (td =? 0) eqn:E; [discriminate|]. apply Nat.eqb_neq in E. injection H as <-. lia.
  - set (s0 := {| sv := servers; next := 0; active := []; completed := []; done := dn; todo := td; retry := [] |}) in *.
    pose proof (inner_todo want (2 * length servers + 1) round s0 k Htd) as Hi.
    destruct (inner (2 * length servers + 1) round s0 k) as [s k'] eqn:E. cbn [fst] in Hi.
    destruct (todo s =? 0) eqn:E0; [discriminate|]. apply Nat.eqb_neq in E0.
    destruct (r =? 0).
    + injection H as <-. unfold inv_todo in Hi. lia.
    + eapply IH; [|exact H]. exact Hi.
Qed.
Theorem put_err_short want retries servers n : put want retries servers = Insufficient n -> n < want.
Proof. unfold put. intros H. eapply outer_insufficient; [|exact H]. lia. Qed.

(* ---------- liveness: enough accepting services => success, for every schedule ---------- *)
Definition gain (round : nat) (l : list nat) : nat := list_sum (map (fun srv => stored_of (answer srv round)) l).

Lemma list_sum_perm l1 l2 : Permutation l1 l2 -> list_sum l1 = list_sum l2.
Proof. induction 1; simpl; lia. Qed.
Lemma gain_perm round l1 l2 : Permutation l1 l2 -> gain round l1 = gain round l2.
Proof. intros H. unfold gain. apply list_sum_perm. apply Permutation_map. exact H. Qed.
Lemma gain_app round l1 l2 : gain round (l1 ++ l2) = gain round l1 + gain round l2.
Proof. unfold gain. rewrite map_app, list_sum_app. reflexivity. Qed.

Definition Inv (round dn0 : nat) (s : st) : Prop :=
  next s <= length (sv s) /\
  Permutation (firstn (next s) (sv s)) (active s ++ completed s) /\
  done s = dn0 + gain round (completed s).

Definition mu (s : st) : nat := 2 * (length (sv s) - next s) + length (active s).

Lemma firstn_S_nth (l : list nat) n : n < length l -> firstn (S n) l = firstn n l ++ [nth n l 0].
Proof.
  revert n. induction l as [|a l IH]; intros n H; cbn [length] in H; [lia|].
  destruct n; [reflexivity|]. cbn [nth]. change (firstn (S (S n)) (a :: l)) with (a :: firstn (S n) l).
  rewrite IH by lia. reflexivity.
Qed.

Lemma nth_split_remove (l : list nat) i : i < length l ->
  Permutation l (nth i l 0 :: remove_nth i l).
Proof.
  intros H. unfold remove_nth. rewrite <- (firstn_skipn i l) at 1.
  assert (Hs : skipn i l = nth i l 0 :: skipn (S i) l).
  { clear -H. revert i H. induction l as [|a l IH]; intros i H; cbn [length] in H; [lia|].
    destruct i; [reflexivity|]. cbn [skipn nth]. apply IH. lia. }
  rewrite Hs. symmetry. apply Permutation_middle.
Qed.

Lemma inner_inv round dn0 fuel : forall s k,
  Inv round dn0 s -> mu s < fuel ->
  let s' := fst (inner fuel round s k) in
  Inv round dn0 s' /\ sv s' = sv s /\ (todo s' = 0 \/ (active s' = [] /\ length (sv s') <= next s')).
Proof.
  induction fuel as [|f IH]; intros s k HI Hmu; [lia|]. cbn [inner].
  destruct (todo s =? 0) eqn:E0.
  { apply Nat.eqb_eq in E0. cbn [fst]. auto. }
  apply Nat.eqb_neq in E0.
  destruct HI as (Hn & Hp & Hd).
  destruct ((length (active s) * rpt <? todo s) && (next s <? length (sv s))) eqn:E1.
  - apply andb_true_iff in E1. destruct E1 as [_ E1]. apply Nat.ltb_lt in E1.
    specialize (IH (start s) k). cbn zeta in IH.
    destruct IH as (A & B & C).
    + unfold Inv, start. cbn [next sv active completed done]. split; [lia|]. split; [|exact Hd].
      rewrite firstn_S_nth by exact E1.
      rewrite <- app_assoc. cbn [app].
      eapply Permutation_trans; [apply Permutation_sym, Permutation_cons_append|].
      eapply Permutation_trans; [apply perm_skip; exact Hp|].
      apply Permutation_middle.
    + unfold mu, start in *. cbn [sv next active]. rewrite app_length. cbn [length]. lia.
    + split; [exact A|split; [rewrite B; reflexivity|exact C]].
  - destruct (active s) as [|a0 arest] eqn:Ea.
    + cbn [fst]. split; [unfold Inv; rewrite Ea; auto|]. split; [reflexivity|]. right. split; [exact Ea|].
      apply andb_false_iff in E1. destruct E1 as [E1|E1].
      * apply Nat.ltb_ge in E1. cbn [length] in E1. lia.
      * apply Nat.ltb_ge in E1. exact E1.
    + rewrite <- Ea in *.
      set (i := pick k mod length (active s)).
      assert (Hi : i < length (active s)).
      { unfold i. apply Nat.mod_upper_bound. rewrite Ea. cbn [length]. lia. }
      specialize (IH (complete round s i) (S k)). cbn zeta in IH.
      destruct IH as (A & B & C).
      * unfold Inv, complete. cbn [next sv active completed done]. split; [exact Hn|]. split.
        -- eapply Permutation_trans; [exact Hp|].
           eapply Permutation_trans; [apply Permutation_app_tail; apply (nth_split_remove (active s) i Hi)|].
           cbn [app]. apply Permutation_middle.
        -- rewrite Hd. unfold gain. simpl. lia.
      * unfold mu, complete in *. cbn [sv next active]. unfold remove_nth. rewrite app_length, firstn_length.
        pose proof (skipn_length (S i) (active s)). lia.
      * split; [exact A|split; [rewrite B; reflexivity|exact C]].
Qed.

Theorem put_succeeds_if_enough_accept want retries servers :
  want <= gain 0 servers -> exists n, put want retries servers = Ok n.
Proof.
  intros Hg. unfold put. cbn [outer].
  set (s0 := {| sv := servers; next := 0; active := []; completed := []; done := 0; todo := want; retry := [] |}).
  assert (HI : Inv 0 0 s0) by (unfold Inv, s0; cbn; repeat split; [lia|constructor]).
  assert (Hmu : mu s0 < 2 * length servers + 1) by (unfold mu, s0; cbn [sv next active length]; lia).
  pose proof (inner_inv 0 0 (2 * length servers + 1) s0 0 HI Hmu) as H. cbn zeta in H.
  pose proof (inner_todo want (2 * length servers + 1) 0 s0 0) as Ht.
  destruct (inner (2 * length servers + 1) 0 s0 0) as [s k'] eqn:E. cbn [fst] in *.
  destruct H as ((Hn & Hp & Hd) & Hsv & Hexit).
  specialize (Ht ltac:(unfold inv_todo, s0; cbn; lia)). unfold inv_todo in Ht.
  assert (Hz : todo s = 0).
  { destruct Hexit as [Hz|[Ha Hl]]; [exact Hz|].
    rewrite Ha in Hp. cbn [app] in Hp. rewrite firstn_all2 in Hp by lia.
    rewrite Hsv in Hp. change (sv s0) with servers in Hp.
    rewrite (gain_perm 0 _ _ Hp) in Hg. lia. }
  rewrite Hz. cbn [Nat.eqb]. eauto.
Qed.
End PR.
Print Assumptions put_ok_enough.
Print Assumptions put_succeeds_if_enough_accept.
