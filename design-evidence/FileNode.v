(* Prototype: sdk/go/arvados/fs_collection.go filenode seek/Read/truncate/Write as a Gallina model *)
From Coq Require Import List Arith Lia Bool.
Import ListNotations.

Definition byte := nat.
Inductive seg := Mem (b : list byte) | Sto (b : list byte).
Definition sbytes (s : seg) : list byte := match s with Mem b => b | Sto b => b end.
Definition slen (s : seg) : nat := length (sbytes s).
Definition is_mem (s : seg) : bool := match s with Mem _ => true | Sto _ => false end.

(* segment.Slice(off, length)  (length = None means "to the end") *)
Definition slice (s : seg) (off : nat) (n : option nat) : seg :=
  let b := skipn off (sbytes s) in
  let b := match n with None => b | Some n => firstn n b end in
  match s with Mem _ => Mem b | Sto _ => Sto b end.

(* memSegment.Truncate(n): shrink, or grow with zeros *)
Definition mem_resize (b : list byte) (n : nat) : list byte :=
  firstn n b ++ repeat 0 (n - length b).
(* memSegment.WriteAt(p, off), requires off+len p <= len b *)
Definition mem_write (b : list byte) (off : nat) (p : list byte) : list byte :=
  firstn off b ++ p ++ skipn (off + length p) b.

Record fnode := { segs : list seg; size : nat; repacked : nat }.
Record ptr := { off : nat; idx : nat; soff : nat; rep : option nat }.  (* rep = None models repacked = -1 *)

Definition nthseg (l : list seg) (i : nat) : seg := nth i l (Mem []).

Fixpoint locate (l : list seg) (target : nat) (i : nat) : nat * nat :=
  match target with
  | 0 => (i, 0)
  | _ => match l with
         | [] => (i, 0)
         | s :: r => if target <? slen s then (i, target) else locate r (target - slen s) (S i)
         end
  end.

Definition seek (fn : fnode) (p : ptr) : ptr :=
  if size fn <=? off p then
    {| off := off p; idx := length (segs fn); soff := 0; rep := Some (repacked fn) |}
  else match rep p with
       | Some r =>
         if r =? repacked fn then
           if slen (nthseg (segs fn) (idx p)) <=? soff p
           then {| off := off p; idx := S (idx p); soff := 0; rep := rep p |}
           else p
         else let '(i, o) := locate (segs fn) (off p) 0 in
              {| off := off p; idx := i; soff := o; rep := Some (repacked fn) |}
       | None => let '(i, o) := locate (segs fn) (off p) 0 in
              {| off := off p; idx := i; soff := o; rep := Some (repacked fn) |}
       end.

(* Read up to n bytes from one segment.  Result: bytes, new ptr, eof flag *)
Definition fn_read (fn : fnode) (n : nat) (p0 : ptr) : list byte * ptr * bool :=
  let p := seek fn p0 in
  if length (segs fn) <=? idx p then ([], p, true)
  else
    let s := nthseg (segs fn) (idx p) in
    let avail := slen s - soff p in
    let data := firstn n (skipn (soff p) (sbytes s)) in
    let eof := avail <? n in
    let got := length data in
    if got =? 0 then (data, p, eof)
    else
      let soff' := soff p + got in
      if soff' =? slen s then
        let i' := S (idx p) in
        (data, {| off := off p + got; idx := i'; soff := 0; rep := rep p |},
         if i' <? length (segs fn) then false else eof)
      else (data, {| off := off p + got; idx := idx p; soff := soff'; rep := rep p |}, eof).

Section WithMax.
Variable maxBlock : nat.

(* truncate: grow loop needs fuel; each iteration adds >= 1 byte when maxBlock >= 1 *)
Fixpoint grow (fuel : nat) (l : list seg) (sz want : nat) : list seg * nat :=
  match fuel with
  | 0 => (l, sz)
  | S fuel =>
    if want <=? sz then (l, sz)
    else
      let need := want - sz in
      match rev l with
      | Mem b :: r =>
        if length b <? maxBlock then
          let g := Nat.min need (maxBlock - length b) in
          grow fuel (rev r ++ [Mem (mem_resize b (length b + g))]) (sz + g) want
        else
          let g := Nat.min need maxBlock in
          grow fuel (l ++ [Mem (mem_resize [] g)]) (sz + g) want
      | _ =>
        let g := Nat.min need maxBlock in
        grow fuel (l ++ [Mem (mem_resize [] g)]) (sz + g) want
      end
  end.

Definition set_nth (l : list seg) (i : nat) (s : seg) : list seg :=
  firstn i l ++ s :: skipn (S i) l.

Definition fn_truncate (fn : fnode) (want : nat) : fnode :=
  if want =? size fn then fn
  else if want <? size fn then
    let p := seek {| segs := segs fn; size := size fn; repacked := S (repacked fn) |}
                  {| off := want; idx := 0; soff := 0; rep := None |} in
    let l := if soff p =? 0 then firstn (idx p) (segs fn)
             else
               let l1 := firstn (S (idx p)) (segs fn) in
               match nthseg (segs fn) (idx p) with
               | Mem b => set_nth l1 (idx p) (Mem (mem_resize b (soff p)))
               | Sto b => set_nth l1 (idx p) (slice (Sto b) 0 (Some (soff p)))
               end in
    {| segs := l; size := want; repacked := S (repacked fn) |}
  else
    let '(l, sz) := grow (S (want - size fn)) (segs fn) (size fn) want in
    {| segs := l; size := sz; repacked := S (repacked fn) |}.

(* One iteration of the Write loop: returns new node, new ptr, number of bytes consumed *)
Definition write_step (fn : fnode) (p : ptr) (data : list byte) : fnode * ptr * nat :=
  let l := segs fn in
  let cando := firstn maxBlock data in
  let cur := idx p in
  let curWritable := if cur <? length l then is_mem (nthseg l cur) else false in
  let prevAppendable :=
      match cur with
      | 0 => false
      | S prev => (slen (nthseg l prev) <? maxBlock) && is_mem (nthseg l prev)
      end in
  if (0 <? soff p) && negb curWritable then
    (* split a non-writable segment *)
    let mx := slen (nthseg l cur) - soff p in
    let '(cando, l') :=
        if mx <=? length cando then
          let cando := firstn mx cando in
          (cando, firstn cur l ++ [slice (nthseg l cur) 0 (Some (soff p)); Mem (repeat 0 (length cando))] ++ skipn (S cur) l)
        else
          (cando, firstn cur l ++ [slice (nthseg l cur) 0 (Some (soff p)); Mem (repeat 0 (length cando));
                                   slice (nthseg l cur) (soff p + length cando) None] ++ skipn (S cur) l) in
    let i := S cur in
    let l'' := set_nth l' i (Mem (mem_write (sbytes (nthseg l' i)) 0 cando)) in
    let n := length cando in
    let fn' := {| segs := l''; size := size fn; repacked := S (repacked fn) |} in
    let so := n in
    let p' := if slen (nthseg l'' i) =? so
              then {| off := off p + n; idx := S i; soff := 0; rep := option_map S (rep p) |}
              else {| off := off p + n; idx := i; soff := so; rep := option_map S (rep p) |} in
    (fn', p', n)
  else if curWritable then
    let fit := slen (nthseg l cur) - soff p in
    let cando := firstn fit cando in
    let n := length cando in
    let l' := set_nth l cur (Mem (mem_write (sbytes (nthseg l cur)) (soff p) cando)) in
    let fn' := {| segs := l'; size := size fn; repacked := repacked fn |} in
    let so := soff p + n in
    let p' := if slen (nthseg l' cur) =? so
              then {| off := off p + n; idx := S cur; soff := 0; rep := rep p |}
              else {| off := off p + n; idx := cur; soff := so; rep := rep p |} in
    (fn', p', n)
  else
    let prev := pred cur in
    let cando := if prevAppendable then firstn (maxBlock - slen (nthseg l prev)) cando else cando in
    (* adjust or drop cur *)
    let '(cando, l1, sz) :=
        if cur =? length l then (cando, l, size fn + length cando)
        else if slen (nthseg l cur) <=? length cando then
          (firstn (slen (nthseg l cur)) cando, firstn cur l ++ skipn (S cur) l, size fn)
        else (cando, set_nth l cur (slice (nthseg l cur) (length cando) None), size fn) in
    let n := length cando in
    if prevAppendable then
      let pb := sbytes (nthseg l1 prev) in
      let so0 := length pb in
      let l2 := set_nth l1 prev (Mem (mem_write (mem_resize pb (so0 + n)) so0 cando)) in
      let fn' := {| segs := l2; size := sz; repacked := S (repacked fn) |} in
      let so := so0 + n in
      let p' := if slen (nthseg l2 prev) =? so
                then {| off := off p + n; idx := S prev; soff := 0; rep := option_map S (rep p) |}
                else {| off := off p + n; idx := prev; soff := so; rep := option_map S (rep p) |} in
      (fn', p', n)
    else
      let l2 := firstn cur l1 ++ Mem cando :: skipn cur l1 in
      (* Go tests cur < len(segments) AFTER growing the slice, so this is always true:
         the "appending does not invalidate ptrs" branch is dead code *)
      let inserted_mid := cur <? length l2 in
      let rp := if inserted_mid then S (repacked fn) else repacked fn in
      let fn' := {| segs := l2; size := sz; repacked := rp |} in
      let prp := if inserted_mid then option_map S (rep p) else rep p in
      let p' := if slen (nthseg l2 cur) =? n
                then {| off := off p + n; idx := S cur; soff := 0; rep := prp |}
                else {| off := off p + n; idx := cur; soff := n; rep := prp |} in
      (fn', p', n).

Fixpoint write_loop (fuel : nat) (fn : fnode) (p : ptr) (data : list byte) : fnode * ptr :=
  match fuel, data with
  | _, [] => (fn, p)
  | 0, _ => (fn, p)
  | S fuel, _ =>
    let '(fn', p', n) := write_step fn p data in
    write_loop fuel fn' p' (skipn n data)
  end.

Definition fn_write (fn : fnode) (p0 : ptr) (data : list byte) : fnode * ptr :=
  let fn1 := if size fn <? off p0 then fn_truncate fn (off p0) else fn in
  let p := seek fn1 p0 in
  write_loop (length data + length (segs fn1) + 1) fn1 p data.

End WithMax.

(* abstraction *)
Definition content (fn : fnode) : list byte := flat_map sbytes (segs fn).

(* smoke test *)
Definition empty := {| segs := []; size := 0; repacked := 0 |}.
Definition p0 := {| off := 0; idx := 0; soff := 0; rep := Some 0 |}.
Eval vm_compute in let '(f, p) := fn_write 3 empty p0 [1;2;3;4;5;6;7] in (segs f, size f, p).
Eval vm_compute in let '(f, p) := fn_write 3 empty p0 [1;2;3;4;5;6;7] in
                   let '(f2, p2) := fn_write 3 f {| off := 2; idx := 0; soff := 0; rep := None |} [9;9;9] in (content f2, segs f2, p2).
