(* Prototype: lib/dispatchcloud/node_size.go ChooseInstanceType *)
From Coq Require Import List ZArith Bool Lia.
Import ListNotations.
Local Open Scope Z_scope.

Record itype := mk { price : Z; ram : Z; vcpus : Z; scratch : Z; preempt : bool }.
Record need := { n_ram : Z; n_vcpus : Z; n_scratch : Z; n_preempt : bool }.

(* needRAM = (ram + keepcache + reserve) * 100 / 95, no overflow assumed *)
Definition need_ram (r kc reserve : Z) : Z := ((r + kc + reserve) * 100) / 95.

Definition adequate (n : need) (t : itype) : bool :=
  (n_scratch n <=? scratch t) && (n_ram n <=? ram t) && (n_vcpus n <=? vcpus t) && Bool.eqb (preempt t) (n_preempt n).

(* the switch of the Go loop; best = None encodes ok == false *)
Definition step (n : need) (best : option itype) (t : itype) : option itype :=
  match best with
  | Some b =>
    if price b <? price t then best
    else if negb (adequate n t) then best
    else if (price t =? price b) && ((ram t <? ram b) || (vcpus t <? vcpus b)) then best
    else Some t
  | None => if adequate n t then Some t else None
  end.

Definition choose (n : need) (ts : list itype) : option itype := fold_left (step n) ts None.

Lemma step_inv n ts : forall best,
  (forall b, best = Some b -> adequate n b = true) ->
  forall r, fold_left (step n) ts best = Some r -> adequate n r = true.
Proof.
  induction ts as [|t ts IH]; intros best Hb r Hr; cbn [fold_left] in Hr; [auto|].
  apply (IH (step n best t)); auto.
  intros b Hs. unfold step in Hs. destruct best as [b0|].
  - destruct (price b0 <? price t); [apply Hb; auto|].
    destruct (adequate n t) eqn:Ea; cbn [negb] in Hs; [|apply Hb; auto].
    destruct ((price t =? price b0) && ((ram t <? ram b0) || (vcpus t <? vcpus b0))); [apply Hb; auto|].
    injection Hs as <-. exact Ea.
  - destruct (adequate n t) eqn:Ea; [injection Hs as <-; exact Ea|discriminate].
Qed.

Theorem choose_adequate n ts r : choose n ts = Some r -> adequate n r = true.
Proof. unfold choose. apply step_inv. intros b H; discriminate. Qed.

(* the result is some element of the table *)
Lemma step_in n ts : forall best,
  (forall b, best = Some b -> In b ts \/ True) ->
  forall r, fold_left (step n) ts best = Some r -> best = Some r \/ In r ts.
Proof.
  induction ts as [|t ts IH]; intros best _ r Hr; cbn [fold_left] in Hr; [left; auto|].
  destruct (IH (step n best t) (fun _ _ => or_intror I) r Hr) as [H|H]; [|right; right; exact H].
  unfold step in H. destruct best as [b0|].
  - destruct (price b0 <? price t); [left; auto|].
    destruct (negb (adequate n t)); [left; auto|].
    destruct ((price t =? price b0) && ((ram t <? ram b0) || (vcpus t <? vcpus b0))); [left; auto|].
    injection H as <-. right; left; reflexivity.
  - destruct (adequate n t); [injection H as <-; right; left; reflexivity|discriminate].
Qed.

(* no adequate type is cheaper: invariant "best is no more expensive than any adequate type seen" *)
Lemma step_cheapest n ts : forall best seen,
  (forall b, best = Some b -> forall x, In x seen -> adequate n x = true -> price b <= price x) ->
  (best = None -> forall x, In x seen -> adequate n x = false) ->
  forall r, fold_left (step n) ts best = Some r ->
  forall x, In x (seen ++ ts) -> adequate n x = true -> price r <= price x.
Proof.
  induction ts as [|t ts IH]; intros best seen H1 H2 r Hr x Hx Ha; cbn [fold_left] in Hr.
  - rewrite app_nil_r in Hx. eapply H1; eauto.
  - apply (IH (step n best t) (seen ++ [t])) with (x := x); auto.
    + intros b Hs y Hy Hay. apply in_app_or in Hy.
      unfold step in Hs. destruct best as [b0|].
      * destruct (price b0 <? price t) eqn:Ep.
        -- injection Hs as <-. destruct Hy as [Hy|[<-|[]]]; [eapply H1; eauto|]. apply Z.ltb_lt in Ep. lia.
        -- apply Z.ltb_ge in Ep. destruct (adequate n t) eqn:Eat; cbn [negb] in Hs.
           ++ destruct ((price t =? price b0) && ((ram t <? ram b0) || (vcpus t <? vcpus b0))) eqn:Et.
              ** injection Hs as <-. destruct Hy as [Hy|[<-|[]]]; [eapply H1; eauto|].
                 apply andb_true_iff in Et. destruct Et as [Et _]. apply Z.eqb_eq in Et. lia.
              ** injection Hs as <-. destruct Hy as [Hy|[<-|[]]]; [|lia].
                 specialize (H1 b0 eq_refl y Hy Hay). lia.
           ++ injection Hs as <-. destruct Hy as [Hy|[<-|[]]]; [eapply H1; eauto|congruence].
      * destruct (adequate n t) eqn:Eat; [|discriminate]. injection Hs as <-.
        destruct Hy as [Hy|[<-|[]]]; [|lia]. rewrite (H2 eq_refl y Hy) in Hay. discriminate.
    + intros Hs y Hy. apply in_app_or in Hy. unfold step in Hs. destruct best as [b0|].
      * destruct (price b0 <? price t); [discriminate|].
        destruct (negb (adequate n t)); [discriminate|].
        destruct ((price t =? price b0) && ((ram t <? ram b0) || (vcpus t <? vcpus b0))); discriminate.
      * destruct (adequate n t) eqn:Eat; [discriminate|].
        destruct Hy as [Hy|[<-|[]]]; [apply H2; auto|exact Eat].
    + rewrite <- app_assoc. exact Hx.
Qed.

Theorem choose_cheapest n ts r x :
  choose n ts = Some r -> In x ts -> adequate n x = true -> price r <= price x.
Proof.
  intros Hr Hx Ha. unfold choose in Hr.
  apply (step_cheapest n ts None [] ) with (r := r) (x := x); auto.
  - intros b H; discriminate.
  - intros _ y [].
Qed.

(* error exactly when no type is adequate *)
Lemma step_none n ts : forall best, fold_left (step n) ts best = None -> best = None /\ forall x, In x ts -> adequate n x = false.
Proof.
  induction ts as [|t ts IH]; intros best H; cbn [fold_left] in H; [split; [auto|intros x []]|].
  destruct (IH _ H) as [Hs Hall]. unfold step in Hs. destruct best as [b0|].
  - destruct (price b0 <? price t); [discriminate|]. destruct (negb (adequate n t)); [discriminate|].
    destruct ((price t =? price b0) && ((ram t <? ram b0) || (vcpus t <? vcpus b0))); discriminate.
  - destruct (adequate n t) eqn:E; [discriminate|]. split; [auto|]. intros x [<-|Hx]; auto.
Qed.
Theorem choose_error_iff_none n ts : choose n ts = None <-> forall x, In x ts -> adequate n x = false.
Proof.
  split.
  - intros H. apply (step_none n ts None H).
  - intros Hall. destruct (choose n ts) as [r|] eqn:E; [|reflexivity].
    pose proof (choose_adequate n ts r E) as Ha.
    destruct (step_in n ts None (fun _ _ => or_intror I) r E) as [H|H]; [discriminate|].
    rewrite (Hall r H) in Ha. discriminate.
Qed.

Lemma ram_threshold (x cap : Z) : 0 <= x -> (x * 100 / 95 <= cap <-> x * 100 < (cap + 1) * 95).
Proof.
  intros Hx. pose proof (Z.div_mod (x * 100) 95 ltac:(lia)). pose proof (Z.mod_pos_bound (x * 100) 95 ltac:(lia)). lia.
Qed.
Print Assumptions choose_cheapest.
Print Assumptions choose_error_iff_none.
