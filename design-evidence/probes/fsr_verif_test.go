//go:build verif

package arvados

import (
	"fmt"
	"os"
	"strings"
	"testing"
)

func TestVerifFsRanges(t *testing.T) {
	var out strings.Builder
	out.WriteString("From Coq Require Import List. Require Import Ranges.\nImport ListNotations.\nDefinition fscases : list (list nat * nat * nat * list seg) := [\n")
	first := true
	emit := func(sizes []int) {
		total := 0
		var ss, blocks []string
		for i, s := range sizes {
			total += s
			ss = append(ss, fmt.Sprint(s))
			blocks = append(blocks, fmt.Sprintf("%032x+%d", i, s))
		}
		for p := 0; p <= total; p++ {
			for l := 0; l <= total-p; l++ {
				mt := fmt.Sprintf(". %s %d:%d:f\n", strings.Join(blocks, " "), p, l)
				k := &vkc{blocks: map[string][]byte{}}
				fs, err := (&Collection{ManifestText: mt}).FileSystem(nil, k)
				if err != nil {
					t.Fatalf("%q: %v", mt, err)
				}
				f, err := fs.Open("f")
				if err != nil {
					t.Fatalf("%q: open: %v", mt, err)
				}
				fn := f.(*filehandle).inode.(*filenode)
				var segs []string
				for _, sg := range fn.segments {
					ss := sg.(storedSegment)
					var idx int
					fmt.Sscanf(ss.locator[:32], "%x", &idx)
					segs = append(segs, fmt.Sprintf("(%d,%d,%d)", idx, ss.offset, ss.length))
				}
				if !first {
					out.WriteString(";\n")
				}
				first = false
				fmt.Fprintf(&out, "([%s], %d, %d, [%s])", strings.Join(ss, ";"), p, l, strings.Join(segs, ";"))
			}
		}
	}
	var rec func(sizes []int, n int)
	rec = func(sizes []int, n int) {
		if n == 0 {
			emit(sizes)
			return
		}
		for s := 0; s <= 3; s++ {
			rec(append(append([]int(nil), sizes...), s), n-1)
		}
	}
	for n := 1; n <= 4; n++ {
		rec(nil, n)
	}
	out.WriteString(`
].
Definition seg_eqb (a b : seg) : bool := let '(i,o,l) := a in let '(j,p,m) := b in Nat.eqb i j && Nat.eqb o p && Nat.eqb l m.
Fixpoint leqb (a b : list seg) : bool := match a, b with [], [] => true | x :: r, y :: s => seg_eqb x y && leqb r s | _, _ => false end.
Definition FSBAD := Eval vm_compute in List.length (filter (fun c => let '(s, p, l, r) := c in
   match fs_map s (0,0) p l with ROk sg _ => negb (leqb sg r) | RErr => true end) fscases).
Print FSBAD.
Definition FSEMPTYSEGS := Eval vm_compute in List.length (filter (fun c => let '(s, p, l, r) := c in existsb (fun sg => let '(_,_,n) := sg in Nat.eqb n 0) r) fscases).
Print FSEMPTYSEGS.
`)
	os.WriteFile("/tmp/exp/coq/FsRanges.v", []byte(out.String()), 0644)
	fmt.Println("emitted")
}
