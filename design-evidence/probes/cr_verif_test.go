//go:build verif

package crunchrun

import (
	"crypto/md5"
	"fmt"
	"io"
	"io/ioutil"
	"log"
	"os"
	"sync"
	"testing"

	"git.arvados.org/arvados.git/sdk/go/arvados"
	"git.arvados.org/arvados.git/sdk/go/manifest"
)

type vkeep struct {
	mtx    sync.Mutex
	blocks map[string][]byte
}

func (k *vkeep) ReadAt(loc string, p []byte, off int) (int, error) {
	k.mtx.Lock()
	defer k.mtx.Unlock()
	b, ok := k.blocks[loc[:32]]
	if !ok {
		return 0, os.ErrNotExist
	}
	if off > len(b) {
		return 0, io.ErrUnexpectedEOF
	}
	return copy(p, b[off:]), nil
}
func (k *vkeep) PutB(p []byte) (string, int, error) {
	h := fmt.Sprintf("%x", md5.Sum(p))
	k.mtx.Lock()
	defer k.mtx.Unlock()
	k.blocks[h] = append([]byte(nil), p...)
	return fmt.Sprintf("%s+%d", h, len(p)), 1, nil
}
func (k *vkeep) LocalLocator(l string) (string, error) { return l, nil }
func (k *vkeep) ClearBlockCache()                       {}
func (k *vkeep) ManifestFileReader(m manifest.Manifest, filename string) (arvados.File, error) {
	return nil, fmt.Errorf("unused")
}

func TestVerifCopier(t *testing.T) {
	tmp, _ := ioutil.TempDir("", "crv")
	defer os.RemoveAll(tmp)
	os.Mkdir(tmp+"/b", 0755)
	ioutil.WriteFile(tmp+"/b/x", []byte("hello"), 0644)
	os.Symlink("/ctr/outdir/b", tmp+"/a") // absolute dir link
	os.Symlink("a/x", tmp+"/l")           // relative link through a
	os.Symlink("b/x", tmp+"/l2")
	kc := &vkeep{blocks: map[string][]byte{}}
	cp := copier{
		keepClient:    kc,
		hostOutputDir: tmp,
		ctrOutputDir:  "/ctr/outdir",
		mounts:        map[string]arvados.Mount{"/ctr/outdir": {Kind: "tmp"}},
		logger:        log.New(ioutil.Discard, "", 0),
	}
	m, err := cp.Copy()
	fmt.Printf("manifest=%q err=%v\n", m, err)
}
