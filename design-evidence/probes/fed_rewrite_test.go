//go:build verif

package federation

import (
	"fmt"
	"math/rand"
	"regexp"
	"strings"
	"testing"
)

func TestVerifFed(t *testing.T) {
	bad := 0
	sigre := regexp.MustCompile(`^\+A([0-9a-f]{40}@[0-9a-f]{8})$`)
	for seed := int64(0); seed < 5000 && bad < 5; seed++ {
		rnd := rand.New(rand.NewSource(seed))
		var mt strings.Builder
		for s := 0; s < 1+rnd.Intn(3); s++ {
			mt.WriteString([]string{".", "./a+Ab", "./x\\040y", "./+A"}[rnd.Intn(4)])
			for b := 0; b < 1+rnd.Intn(3); b++ {
				loc := fmt.Sprintf(" %032x+%d", rnd.Int63(), rnd.Intn(100))
				for h := 0; h < rnd.Intn(4); h++ {
					switch rnd.Intn(4) {
					case 0:
						loc += fmt.Sprintf("+A%040x@%08x", rnd.Int63(), rnd.Int31())
					case 1:
						loc += "+Kzzzzz"
					case 2:
						loc += "+Bfoo-A_b@c"
					case 3:
						loc += "+Rzzzzz-" + fmt.Sprintf("%040x@%08x", rnd.Int63(), rnd.Int31())
					}
				}
				mt.WriteString(loc)
			}
			for f := 0; f < 1+rnd.Intn(3); f++ {
				mt.WriteString(fmt.Sprintf(" %d:%d:%s", rnd.Intn(5), rnd.Intn(5), []string{"f", "g+Ah", "0123456789abcdef0123456789abcdef+Aq", "x\\040+A"}[rnd.Intn(4)]))
			}
			mt.WriteString("\n")
		}
		in := mt.String()
		out := rewriteManifest(in, "remot")
		// reference: token-wise
		var ref strings.Builder
		for li, line := range strings.SplitAfter(in, "\n") {
			_ = li
			nl := strings.HasSuffix(line, "\n")
			line = strings.TrimSuffix(line, "\n")
			toks := strings.Split(line, " ")
			seenFile := false
			for ti, tok := range toks {
				if ti > 0 {
					ref.WriteString(" ")
				}
				if ti > 0 && !seenFile && !strings.Contains(tok, ":") {
					parts := strings.Split(tok, "+")
					for pi, p := range parts {
						if pi > 0 {
							ref.WriteString("+")
						}
						if pi >= 1 && strings.HasPrefix(p, "A") && sigre.MatchString("+"+p) {
							ref.WriteString("Rremot-" + p[1:])
						} else {
							ref.WriteString(p)
						}
					}
				} else {
					if ti > 0 {
						seenFile = true
					}
					ref.WriteString(tok)
				}
			}
			if nl {
				ref.WriteString("\n")
			}
		}
		if out != ref.String() {
			fmt.Printf("REWRITE MISMATCH\n in  %q\n out %q\n ref %q\n", in, out, ref.String())
			bad++
		}
	}
	fmt.Println("rewrite probe bad =", bad)
}
