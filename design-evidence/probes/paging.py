import itertools, sys, random

def page(db, filters, limit):
    rows = sorted(db.items(), key=lambda kv:(kv[1], kv[0]))
    out=[]
    for u,t in rows:
        ok=True
        for (attr,op,val) in filters:
            x = t if attr=='m' else u
            if op=='>=' : ok &= x>=val
            elif op=='>': ok &= x>val
            elif op=='=': ok &= x==val
            elif op=='!=': ok &= x!=val
            elif op=='<=': ok &= x<=val
        if ok: out.append((u,t))
        if len(out)>=limit: break
    return out

def scan(db, limit, events_per_page, maxpages=200):
    """db: dict uuid->mtime (mutated by events). events_per_page: list of lists of events applied before each page request (after the first)"""
    visited=[]
    persistent=set(db.keys())
    last=(None,0)  # uuid, mtime ; mtime 0 = zero time
    filterTime=0
    exact=False
    filters=[]
    calls=0
    npage=0
    while True:
        # environment events before this request
        if npage < len(events_per_page):
            for ev in events_per_page[npage]:
                fresh = max(list(db.values())+[filterTime, last[1]])+1
                if ev[0]=='mod' and ev[1] in db: db[ev[1]]=fresh
                elif ev[0]=='add': db[ev[1]]=fresh
                elif ev[0]=='del' and ev[1] in db:
                    del db[ev[1]]; persistent.discard(ev[1])
        npage+=1
        if npage>maxpages: return ('hang',visited,persistent)
        pg = page(db, filters, limit)
        for (u,t) in pg:
            if last[1]==t and last[0] is not None and last[0]>=u: continue
            calls+=1; visited.append(u); last=(u,t)
        if len(pg)==0 and not exact: break
        elif last[1]==0: return ('bug',visited,persistent)
        elif len(pg)>0 and last[1]==filterTime:
            exact=True
            filters=[('m','=',filterTime),('u','>',last[0])]
        elif exact:
            exact=False
            filters=[('m','>',filterTime)]
        else:
            filterTime=last[1]
            filters=[('m','>=',filterTime),('u','!=',last[0])]
    check = len(page(db,[('m','<=',filterTime)],10**9))
    if calls<check: return ('counterr',visited,persistent)
    return ('ok',visited,persistent)

def check_static():
    n=0
    for size in range(0,7):
        uuids='abcdef'[:size]
        for times in itertools.product([1,2,3],repeat=size):
            for limit in range(1,size+2):
                db=dict(zip(uuids,times))
                r,vis,pers=scan(dict(db),limit,[])
                n+=1
                if r!='ok' or set(vis)!=set(db) :
                    print('STATIC FAIL',db,limit,r,vis); return
    print('static ok',n)

def check_dynamic(trials=200000, seed=1):
    rnd=random.Random(seed)
    for i in range(trials):
        size=rnd.randint(1,6)
        uuids='abcdef'[:size]
        db={u:rnd.randint(1,3) for u in uuids}
        limit=rnd.randint(1,4)
        evs=[]
        for p in range(rnd.randint(0,6)):
            e=[]
            for k in range(rnd.randint(0,2)):
                kind=rnd.choice(['mod','mod','add','del'])
                u=rnd.choice(uuids) if kind!='add' else rnd.choice('ghijk')
                e.append((kind,u))
            evs.append(e)
        db0=dict(db)
        r,vis,pers=scan(db,limit,evs)
        if r=='ok' and not pers<=set(vis):
            print('DYN FAIL',db0,limit,evs,r,vis,pers); return
        if r in('hang','bug'):
            print('DYN',r,db0,limit,evs); return
    print('dynamic ok',trials)
check_static(); check_dynamic()
