//go:build verif

package manifest

import (
	"fmt"
	"os"
	"strings"
	"testing"
)

// enumerate block-size lists (1-4 blocks, sizes 0-3) and all ranges; record firstBlock + scan outcome
func TestVerifRanges(t *testing.T) {
	var out strings.Builder
	out.WriteString("From Coq Require Import List. Require Import Ranges.\nImport ListNotations.\nDefinition gocases : list (list nat * nat * nat * gres) := [\n")
	first := true
	var rec func(sizes []int, n int)
	emit := func(sizes []int) {
		total := 0
		offs := []uint64{0}
		for _, s := range sizes {
			total += s
			offs = append(offs, uint64(total))
		}
		var ss []string
		var blocks []string
		for i, s := range sizes {
			ss = append(ss, fmt.Sprint(s))
			blocks = append(blocks, fmt.Sprintf("%032x+%d", i, s))
		}
		for p := 0; p <= total; p++ {
			for l := 0; l <= total-p; l++ {
				res := func() (r string) {
					defer func() {
						if e := recover(); e != nil {
							r = "GPanic"
						}
					}()
					ms := ManifestStream{StreamName: ".", Blocks: blocks, blockOffsets: offs,
						FileStreamSegments: []FileStreamSegment{{SegPos: uint64(p), SegLen: uint64(l), Name: "f"}}}
					ch := make(chan *FileSegment, 64)
					ms.sendFileSegmentIterByName("./f", ch)
					close(ch)
					var segs []string
					for fs := range ch {
						if l == 0 {
							continue // the empty-block marker segment
						}
						var idx int
						fmt.Sscanf(fs.Locator[:32], "%x", &idx)
						segs = append(segs, fmt.Sprintf("(%d,%d,%d)", idx, fs.Offset, fs.Len))
					}
					return "GOk [" + strings.Join(segs, ";") + "]"
				}()
				if !first {
					out.WriteString(";\n")
				}
				first = false
				fmt.Fprintf(&out, "([%s], %d, %d, %s)", strings.Join(ss, ";"), p, l, res)
			}
		}
	}
	rec = func(sizes []int, n int) {
		if n == 0 {
			emit(sizes)
			return
		}
		for s := 0; s <= 3; s++ {
			rec(append(append([]int(nil), sizes...), s), n-1)
		}
	}
	for n := 1; n <= 4; n++ {
		rec(nil, n)
	}
	out.WriteString(`
].
Definition seg_eqb (a b : seg) : bool := let '(i,o,l) := a in let '(j,p,m) := b in Nat.eqb i j && Nat.eqb o p && Nat.eqb l m.
Fixpoint leqb (a b : list seg) : bool := match a, b with [], [] => true | x :: r, y :: s => seg_eqb x y && leqb r s | _, _ => false end.
Definition gres_eqb (a b : gres) : bool := match a, b with GPanic, GPanic => true | GOk x, GOk y => leqb x y | _, _ => false end.
Definition GOBAD := Eval vm_compute in List.length (filter (fun c => let '(s, p, l, r) := c in negb (gres_eqb (go_map s p l) r)) gocases).
Print GOBAD.
Definition GOPANICS := Eval vm_compute in List.length (filter (fun c => let '(s, p, l, r) := c in match r with GPanic => true | _ => false end) gocases).
Print GOPANICS.
`)
	os.WriteFile("/tmp/exp/coq/GoRanges.v", []byte(out.String()), 0644)
	fmt.Println("emitted")
}
