//go:build verif

package arvados

import (
	"fmt"
	"math/rand"
	"os"
	"sort"
	"strings"
	"testing"
)

var lastNotDir bool

type refnode struct {
	dir      bool
	data     []byte
	children map[string]*refnode
}

func (n *refnode) lookup(path string) (*refnode, *refnode, string) { // node, parent, base
	parts := strings.Split(strings.Trim(path, "/"), "/")
	cur := n
	var parent *refnode
	base := ""
	lastNotDir = false
	for i, p := range parts {
		if p == "" {
			continue
		}
		if cur != nil && !cur.dir {
			lastNotDir = true
			return nil, nil, p
		}
		if cur == nil {
			return nil, nil, p
		}
		parent = cur
		base = p
		cur = cur.children[p]
		if cur == nil && i < len(parts)-1 {
			return nil, nil, p
		}
	}
	return cur, parent, base
}

func errclass(err error) string {
	if err != nil && strings.Contains(err.Error(), "not a directory") {
		return "notdir"
	}
	if err != nil && strings.Contains(err.Error(), "file does not exist") {
		return "notexist"
	}
	switch {
	case err == nil:
		return "ok"
	case os.IsNotExist(err) || strings.Contains(err.Error(), "file does not exist"):
		return "notexist"
	case err == os.ErrExist || err == ErrFileExists:
		return "exists"
	case err == ErrDirectoryNotEmpty:
		return "notempty"
	case err == ErrIsDirectory:
		return "isdir"
	case err == ErrInvalidArgument:
		return "invalid"
	case err == ErrNotADirectory:
		return "notdir"
	case err == ErrInvalidOperation:
		return "invalidop"
	default:
		return "other:" + err.Error()
	}
}

func isAncestorOrSelf(root, a, b *refnode) bool { // is a an ancestor-or-self of b
	if a == b {
		return true
	}
	if a == nil || !a.dir {
		return false
	}
	for _, c := range a.children {
		if isAncestorOrSelf(root, c, b) {
			return true
		}
	}
	return false
}

func TestVerifTree(t *testing.T) {
	diverge := map[string]int{}
	examples := map[string]string{}
	for seed := int64(0); seed < 4000; seed++ {
		rnd := rand.New(rand.NewSource(seed))
		k := &vkc{blocks: map[string][]byte{}}
		fs, _ := (&Collection{}).FileSystem(nil, k)
		root := &refnode{dir: true, children: map[string]*refnode{}}
		paths := []string{"a", "b", "d", "d/a", "d/e", "d/e/f", "b/x", "a/y"}
		var log []string
		for step := 0; step < 25; step++ {
			p := paths[rnd.Intn(len(paths))]
			q := paths[rnd.Intn(len(paths))]
			var got, want, opname string
			switch rnd.Intn(6) {
			case 0:
				opname = "mkdir"
				got = errclass(fs.Mkdir(p, 0755))
				n, par, base := root.lookup(p)
				switch {
				case par == nil:
					want = "notexist"
				case n != nil:
					want = "exists"
				default:
					want = "ok"
					par.children[base] = &refnode{dir: true, children: map[string]*refnode{}}
				}
			case 1:
				opname = "create"
				f, err := fs.OpenFile(p, os.O_CREATE|os.O_WRONLY, 0644)
				got = errclass(err)
				n, par, base := root.lookup(p)
				switch {
				case par == nil:
					want = "notexist"
				case n != nil:
					want = "ok" // opening existing (even a dir?) -- recorded as divergence if not
				default:
					want = "ok"
					par.children[base] = &refnode{}
				}
				if err == nil {
					f.Write([]byte(p))
					if n, _, _ := root.lookup(p); n != nil && !n.dir {
						d := append([]byte(nil), n.data...)
						if len(d) < len(p) {
							d = append(d, make([]byte, len(p)-len(d))...)
						}
						copy(d, p)
						n.data = d
					}
					f.Close()
				}
			case 2:
				opname = "remove"
				got = errclass(fs.Remove(p))
				n, par, base := root.lookup(p)
				switch {
				case par == nil || n == nil:
					want = "notexist"
				case n.dir && len(n.children) > 0:
					want = "notempty"
				default:
					want = "ok"
					delete(par.children, base)
				}
			case 3:
				opname = "rename"
				got = errclass(fs.Rename(p, q))
				n, par, base := root.lookup(p)
				m, qpar, qbase := root.lookup(q)
				switch {
				case par == nil || n == nil:
					want = "notexist"
				case qpar == nil:
					want = "notexist"
				case n.dir && isAncestorOrSelf(root, n, qpar):
					want = "invalid"
				case m != nil && m.dir:
					want = "isdir"
				default:
					want = "ok"
					delete(par.children, base)
					if n != m {
						qpar.children[qbase] = n
					}
				}
			case 4:
				opname = "stat"
				fi, err := fs.Stat(p)
				got = errclass(err)
				n, _, _ := root.lookup(p)
				if n == nil {
					want = "notexist"
				} else {
					want = "ok"
					if err == nil {
						if fi.IsDir() != n.dir || (!n.dir && fi.Size() != int64(len(n.data))) {
							got = fmt.Sprintf("ok-but-wrong(dir=%v size=%d)", fi.IsDir(), fi.Size())
						}
					}
				}
			case 5:
				opname = "readdir"
				n, _, _ := root.lookup(p)
				f, err := fs.Open(p)
				if err != nil {
					got = errclass(err)
				} else {
					fis, err := f.Readdir(-1)
					got = errclass(err)
					if err == nil {
						var names []string
						for _, fi := range fis {
							names = append(names, fi.Name())
						}
						sort.Strings(names)
						got = "ok:" + strings.Join(names, ",")
					}
				}
				switch {
				case n == nil:
					want = "notexist"
				case !n.dir:
					want = "invalidop"
				default:
					var names []string
					for c := range n.children {
						names = append(names, c)
					}
					sort.Strings(names)
					want = "ok:" + strings.Join(names, ",")
				}
			}
			log = append(log, fmt.Sprintf("%s %s %s -> %s", opname, p, q, got))
			if want == "notexist" && got == "notdir" {
				want = "notdir" // reference does not distinguish which component was a file
			}
			if got != want {
				key := fmt.Sprintf("%s: impl=%s ref=%s", opname, strings.SplitN(got, ":", 2)[0], strings.SplitN(want, ":", 2)[0])
				diverge[key]++
				if _, ok := examples[key]; !ok {
					examples[key] = fmt.Sprintf("seed %d: %v", seed, log[vmax(0, len(log)-6):])
				}
				break
			}
		}
	}
	var keys []string
	for k := range diverge {
		keys = append(keys, k)
	}
	sort.Strings(keys)
	for _, k := range keys {
		fmt.Printf("%5d  %s\n        e.g. %s\n", diverge[k], k, examples[k])
	}
	fmt.Println("tree probe done")
}

func vmax(a, b int) int {
	if a > b {
		return a
	}
	return b
}
