//go:build verif

package keepclient

import (
	"bytes"
	"crypto/md5"
	"errors"
	"fmt"
	"io"
	"io/ioutil"
	"net/http"
	"sync"
	"testing"

	"git.arvados.org/arvados.git/sdk/go/arvadosclient"
)

type gstub struct {
	mtx     sync.Mutex
	attempt map[string]int
	script  map[string][]int
	content []byte
}

// behaviours
const (
	bOK = iota
	bFlip
	bShort
	bLong
	bCLWrong   // correct body, wrong content-length header (declared longer by 1 -> transport would error; we emulate by CL=n+1 and body n)
	bChunkedOK // no content-length, correct body
	bChunkedLong
	bChunkedShort
	b404
	b500
	bConn
	nBeh
)

func (s *gstub) Do(req *http.Request) (*http.Response, error) {
	s.mtx.Lock()
	host := req.URL.Host
	n := s.attempt[host]
	s.attempt[host]++
	sc := s.script[host]
	beh := sc[len(sc)-1]
	if n < len(sc) {
		beh = sc[n]
	}
	s.mtx.Unlock()
	body := append([]byte(nil), s.content...)
	cl := int64(len(body))
	code := 200
	switch beh {
	case bFlip:
		if len(body) > 0 {
			body[len(body)/2] ^= 1
		} else {
			body = []byte{0}
			cl = 1
		}
	case bShort:
		if len(body) > 0 {
			body = body[:len(body)-1]
			cl = int64(len(body))
		}
	case bLong:
		body = append(body, 'x')
		cl = int64(len(body))
	case bCLWrong:
		cl = cl + 1
	case bChunkedOK:
		cl = -1
	case bChunkedLong:
		body = append(body, 'x')
		cl = -1
	case bChunkedShort:
		if len(body) > 0 {
			body = body[:len(body)-1]
		}
		cl = -1
	case b404:
		code, body, cl = 404, []byte("nf"), 2
	case b500:
		code, body, cl = 500, []byte("err"), 3
	case bConn:
		return nil, errors.New("conn refused")
	}
	var rd io.Reader = bytes.NewReader(body)
	if cl >= 0 {
		// emulate net/http: body is exactly Content-Length bytes, else unexpected EOF
		if int64(len(body)) < cl {
			rd = io.MultiReader(bytes.NewReader(body), errReader{})
		} else {
			rd = bytes.NewReader(body[:cl])
		}
	}
	return &http.Response{StatusCode: code, ContentLength: cl, Header: http.Header{}, Body: ioutil.NopCloser(rd)}, nil
}

type errReader struct{}

func (errReader) Read([]byte) (int, error) { return 0, io.ErrUnexpectedEOF }

func TestVerifGet(t *testing.T) {
	total, bad, okc := 0, 0, 0
	for _, content := range [][]byte{{}, []byte("a"), []byte("hello world")} {
		hash := fmt.Sprintf("%x", md5.Sum(content))
		for _, hint := range []bool{true, false} {
			loc := hash
			if hint {
				loc = fmt.Sprintf("%s+%d", hash, len(content))
			}
			if len(content) == 0 && hint {
				continue // short-circuited by client
			}
			for nsvc := 1; nsvc <= 2; nsvc++ {
				rounds := 2
				nslots := nsvc * rounds
				idx := make([]int, nslots)
				for {
					script := map[string][]int{}
					roots := map[string]string{}
					for i := 0; i < nsvc; i++ {
						host := fmt.Sprintf("h%d", i)
						roots[fmt.Sprintf("zzzzz-bi6l4-%015d", i)] = "http://" + host
						for r := 0; r < rounds; r++ {
							script[host] = append(script[host], idx[i*rounds+r])
						}
					}
					for _, useCache := range []bool{false, true} {
						st := &gstub{attempt: map[string]int{}, script: script, content: content}
						kc := &KeepClient{Arvados: &arvadosclient.ArvadosClient{ApiToken: "x"}, Retries: 1, HTTPClient: st, BlockCache: &BlockCache{}}
						kc.SetServiceRoots(roots, roots, nil)
						total++
						if useCache {
							data, err := kc.BlockCache.Get(kc, loc)
							if err == nil {
								okc++
								if !bytes.Equal(data, content) {
									fmt.Printf("CACHE BAD content=%q loc=%s script=%v got=%q\n", content, loc, script, data)
									bad++
								}
							}
							// second get must not serve a cached error
							data2, err2 := kc.BlockCache.Get(kc, loc)
							if err2 == nil && !bytes.Equal(data2, content) {
								fmt.Printf("CACHE2 BAD content=%q loc=%s script=%v got=%q\n", content, loc, script, data2)
								bad++
							}
						} else {
							rdr, size, _, err := kc.Get(loc)
							if err == nil {
								data, rerr := ioutil.ReadAll(rdr)
								cerr := rdr.Close()
								if rerr == nil && cerr == nil {
									okc++
									if !bytes.Equal(data, content) || size != int64(len(content)) {
										fmt.Printf("GET BAD content=%q loc=%s script=%v got=%q size=%d\n", content, loc, script, data, size)
										bad++
									}
								}
							}
						}
					}
					if bad > 8 {
						t.Fatal("stop")
					}
					k := 0
					for k < nslots {
						idx[k]++
						if idx[k] < nBeh {
							break
						}
						idx[k] = 0
						k++
					}
					if k == nslots {
						break
					}
				}
			}
		}
	}
	fmt.Println("get cases", total, "ok", okc, "bad", bad)
}
