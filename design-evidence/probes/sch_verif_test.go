//go:build verif

package scheduler

import (
	"context"
	"fmt"
	"io/ioutil"
	"math/rand"
	"os"
	"sort"
	"strings"
	"sync"
	"testing"
	"time"

	"git.arvados.org/arvados.git/lib/dispatchcloud/container"
	"git.arvados.org/arvados.git/lib/dispatchcloud/test"
	"git.arvados.org/arvados.git/lib/dispatchcloud/worker"
	"git.arvados.org/arvados.git/sdk/go/arvados"
	"git.arvados.org/arvados.git/sdk/go/ctxlog"
	"github.com/sirupsen/logrus"
)

type vPool struct {
	sync.Mutex
	running  map[string]time.Time
	unalloc  map[arvados.InstanceType]int
	atQuota  bool
	createOK map[string]bool
	idle     map[string]int
	killable map[string]bool
	log      []string
	shut     []string
	itID     map[string]int
}

func (p *vPool) Running() map[string]time.Time {
	r := map[string]time.Time{}
	for k, v := range p.running {
		r[k] = v
	}
	return r
}
func (p *vPool) Unallocated() map[arvados.InstanceType]int {
	r := map[arvados.InstanceType]int{}
	for k, v := range p.unalloc {
		r[k] = v
	}
	return r
}
func (p *vPool) CountWorkers() map[worker.State]int { return map[worker.State]int{} }
func (p *vPool) AtQuota() bool                      { return p.atQuota }
func (p *vPool) Create(it arvados.InstanceType) bool {
	p.Lock()
	defer p.Unlock()
	p.log = append(p.log, fmt.Sprintf("ECreate %d", p.itID[it.Name]))
	return p.createOK[it.Name]
}
func (p *vPool) Shutdown(it arvados.InstanceType) bool {
	p.Lock()
	defer p.Unlock()
	p.shut = append(p.shut, fmt.Sprint(p.itID[it.Name]))
	return true
}
func (p *vPool) StartContainer(it arvados.InstanceType, ctr arvados.Container) bool {
	p.Lock()
	defer p.Unlock()
	ok := p.idle[it.Name] > 0
	if ok {
		p.idle[it.Name]--
	}
	p.log = append(p.log, fmt.Sprintf("EStart %d %d %v", p.itID[it.Name], uuidNum(ctr.UUID), ok))
	return ok
}
func (p *vPool) KillContainer(uuid, reason string) bool {
	p.Lock()
	defer p.Unlock()
	p.log = append(p.log, fmt.Sprintf("EKill %d", uuidNum(uuid)))
	return p.killable[uuid]
}
func (p *vPool) ForgetContainer(uuid string)     {}
func (p *vPool) Subscribe() <-chan struct{}      { return make(chan struct{}) }
func (p *vPool) Unsubscribe(<-chan struct{})     {}

type vQueue struct {
	sync.Mutex
	ents  map[string]container.QueueEnt
	pool  *vPool
	locks []string
}

func (q *vQueue) Entries() (map[string]container.QueueEnt, time.Time) { return q.ents, time.Now() }
func (q *vQueue) Lock(uuid string) error {
	q.Lock_()
	q.locks = append(q.locks, fmt.Sprint(uuidNum(uuid)))
	q.Unlock_()
	return nil
}
func (q *vQueue) Lock_()   { q.Mutex.Lock() }
func (q *vQueue) Unlock_() { q.Mutex.Unlock() }
func (q *vQueue) Unlock(uuid string) error {
	q.pool.Lock()
	q.pool.log = append(q.pool.log, fmt.Sprintf("EUnlock %d", uuidNum(uuid)))
	q.pool.Unlock()
	return nil
}
func (q *vQueue) Cancel(uuid string) error { return nil }
func (q *vQueue) Forget(uuid string)       {}
func (q *vQueue) Get(uuid string) (arvados.Container, bool) {
	e, ok := q.ents[uuid]
	return e.Container, ok
}
func (q *vQueue) Subscribe() <-chan struct{}  { return make(chan struct{}) }
func (q *vQueue) Unsubscribe(<-chan struct{}) {}
func (q *vQueue) Update() error               { return nil }

func uuidNum(u string) int {
	var n int
	fmt.Sscanf(u[len(u)-15:], "%d", &n)
	return n
}

func TestVerifRunQueue(t *testing.T) {
	var out strings.Builder
	out.WriteString("From Coq Require Import List. Require Import RunQueue.\nImport ListNotations.\nDefinition cases : list rcase := [\n")
	quiet := logrus.New()
	quiet.SetOutput(ioutil.Discard)
	ctx := ctxlog.Context(context.Background(), quiet)
	ncases := 3000
	for seed := int64(0); seed < int64(ncases); seed++ {
		rnd := rand.New(rand.NewSource(seed))
		nit := 1 + rnd.Intn(3)
		var its []arvados.InstanceType
		itID := map[string]int{}
		for i := 0; i < nit; i++ {
			it := test.InstanceType(i + 1)
			its = append(its, it)
			itID[it.Name] = i
		}
		pool := &vPool{running: map[string]time.Time{}, unalloc: map[arvados.InstanceType]int{}, createOK: map[string]bool{}, idle: map[string]int{}, killable: map[string]bool{}, itID: itID}
		pool.atQuota = rnd.Intn(3) == 0
		var unallocS, idleS, createS []string
		for _, it := range its {
			pool.idle[it.Name] = rnd.Intn(3)
			pool.unalloc[it] = pool.idle[it.Name] + rnd.Intn(2)
			pool.createOK[it.Name] = rnd.Intn(3) > 0
			unallocS = append(unallocS, fmt.Sprint(pool.unalloc[it]))
			idleS = append(idleS, fmt.Sprint(pool.idle[it.Name]))
			createS = append(createS, fmt.Sprint(pool.createOK[it.Name]))
		}
		q := &vQueue{ents: map[string]container.QueueEnt{}, pool: pool}
		n := rnd.Intn(8)
		prios := rnd.Perm(12)
		var entS, runS, killS []string
		for i := 0; i < n; i++ {
			uuid := test.ContainerUUID(i + 1)
			st := []arvados.ContainerState{arvados.ContainerStateQueued, arvados.ContainerStateLocked, arvados.ContainerStateLocked, arvados.ContainerStateRunning}[rnd.Intn(4)]
			prio := prios[i] // distinct, may be 0
			it := its[rnd.Intn(nit)]
			q.ents[uuid] = container.QueueEnt{Container: arvados.Container{UUID: uuid, State: st, Priority: int64(prio)}, InstanceType: it}
			stn := map[arvados.ContainerState]int{arvados.ContainerStateQueued: 0, arvados.ContainerStateLocked: 1, arvados.ContainerStateRunning: 2}[st]
			entS = append(entS, fmt.Sprintf("(%d,%d,%d,%d)", uuidNum(uuid), stn, prio, itID[it.Name]))
			if rnd.Intn(4) == 0 {
				pool.running[uuid] = time.Time{}
				runS = append(runS, fmt.Sprint(uuidNum(uuid)))
			}
			if rnd.Intn(5) == 0 {
				pool.killable[uuid] = true
				killS = append(killS, fmt.Sprint(uuidNum(uuid)))
			}
		}
		sch := New(ctx, q, pool, nil, time.Minute, time.Second)
		sch.runQueue()
		time.Sleep(2 * time.Millisecond) // async lockContainer goroutines
		q.Lock_()
		locks := append([]string(nil), q.locks...)
		q.Unlock_()
		sort.Strings(locks)
		sort.Strings(pool.shut)
		if seed > 0 {
			out.WriteString(";\n")
		}
		fmt.Fprintf(&out, "mkr [%s] [%s] [%s] %v [%s] [%s] [%s] [%s] [%s] [%s]",
			strings.Join(entS, ";"), strings.Join(runS, ";"), strings.Join(unallocS, ";"), pool.atQuota,
			strings.Join(createS, ";"), strings.Join(idleS, ";"), strings.Join(killS, ";"),
			strings.Join(pool.log, "; "), strings.Join(locks, ";"), strings.Join(pool.shut, ";"))
	}
	out.WriteString("\n].\nDefinition BAD := Eval vm_compute in bad_cases cases.\nPrint BAD.\n")
	os.WriteFile("/tmp/exp/coq/RCases.v", []byte(out.String()), 0644)
	fmt.Println("emitted", ncases)
}
