//go:build verif

package controller

import (
	"fmt"
	"io/ioutil"
	"net/http"
	"net/http/httptest"
	"strings"
	"testing"

	"git.arvados.org/arvados.git/sdk/go/arvados"
)

func TestVerifSalt(t *testing.T) {
	h := &Handler{Cluster: &arvados.Cluster{ClusterID: "aaaaa"}}
	secret := "thisisthesecretpartofthetokenwhichislongerthan40chars"
	tok := "v2/aaaaa-gj3su-000000000000000/" + secret
	// 1. token only in form body
	req := httptest.NewRequest("POST", "http://x/arvados/v1/workflows", strings.NewReader("api_token="+tok+"&foo=bar"))
	req.Header.Set("Content-Type", "application/x-www-form-urlencoded")
	out, err := h.saltAuthToken(req, "bbbbb")
	fmt.Println("form: err", err)
	if out != nil {
		b, _ := ioutil.ReadAll(out.Body)
		fmt.Printf("  auth=%q body contains secret: %v\n", out.Header.Get("Authorization"), strings.Contains(string(b), secret))
	}
	// 2. token in cookie + header
	req = httptest.NewRequest("GET", "http://x/arvados/v1/workflows?api_token="+tok, nil)
	req.Header.Set("Authorization", "Bearer "+tok)
	req.AddCookie(&http.Cookie{Name: "arvados_api_token", Value: "djIvYWFhYWE="})
	out, err = h.saltAuthToken(req, "bbbbb")
	fmt.Println("hdr+query+cookie: err", err)
	if out != nil {
		fmt.Printf("  auth=%q query=%q cookie=%q\n", out.Header.Get("Authorization"), out.URL.RawQuery, out.Header.Get("Cookie"))
	}
}
