//go:build verif

package main

import (
	"bytes"
	"context"
	"crypto/md5"
	"encoding/json"
	"fmt"
	"io/ioutil"
	"math/rand"
	"net/http/httptest"
	"os"
	"path/filepath"
	"sort"
	"strings"
	"testing"
	"time"

	"git.arvados.org/arvados.git/lib/config"
	"git.arvados.org/arvados.git/sdk/go/arvados"
	"git.arvados.org/arvados.git/sdk/go/ctxlog"
	"github.com/prometheus/client_golang/prometheus"
	"github.com/sirupsen/logrus"
)

type refcopy struct {
	data  []byte
	mtime time.Time
}
type refvol struct {
	ro     bool
	blocks map[string]*refcopy
	trash  map[string][]*refcopy
}

func TestVerifHist(t *testing.T) {
	ttl := 2 * time.Hour
	life := 24 * time.Hour
	problems := map[string]int{}
	examples := map[string]string{}
	note := func(k string, ex string) {
		problems[k]++
		if _, ok := examples[k]; !ok {
			examples[k] = ex
		}
	}
	quiet := logrus.New()
	quiet.SetOutput(ioutil.Discard)
	for seed := int64(0); seed < 300; seed++ {
		rnd := rand.New(rand.NewSource(seed))
		ldr := config.NewLoader(bytes.NewBufferString("Clusters: {zzzzz: {}}"), ctxlog.TestLogger(t))
		ldr.Logger = quiet
		ldr.Path = "-"
		cfg, _ := ldr.Load()
		cluster, _ := cfg.GetCluster("")
		cluster.SystemRootToken = "systemroottokensystemroottokensystemroottoken"
		cluster.Collections.BlobSigning = false
		cluster.Collections.BlobTrash = true
		cluster.Collections.BlobSigningTTL = arvados.Duration(ttl)
		cluster.Collections.BlobTrashLifetime = arvados.Duration(life)
		cluster.Collections.BlobTrashCheckInterval = 0
		cluster.Services.Controller.ExternalURL = arvados.URL{Scheme: "http", Host: "localhost:1"}
		nvol := 1 + rnd.Intn(2)
		cluster.Volumes = map[string]arvados.Volume{}
		var dirs []string
		ref := map[string]*refvol{}
		for i := 0; i < nvol; i++ {
			d, _ := ioutil.TempDir("", "ksh")
			defer os.RemoveAll(d)
			dirs = append(dirs, d)
			p, _ := json.Marshal(map[string]interface{}{"Root": d})
			ro := nvol == 2 && i == 1 && rnd.Intn(2) == 0
			uuid := fmt.Sprintf("zzzzz-nyw5e-%015d", i)
			cluster.Volumes[uuid] = arvados.Volume{Replication: 1, Driver: "Directory", DriverParameters: p, ReadOnly: ro}
			ref[d] = &refvol{ro: ro, blocks: map[string]*refcopy{}, trash: map[string][]*refcopy{}}
		}
		h := &handler{}
		ctx := ctxlog.Context(context.Background(), quiet)
		if err := h.setup(ctx, cluster, "", prometheus.NewRegistry(), testServiceURL); err != nil {
			t.Fatal(err)
		}
		// order of volumes as keepstore sees them
		var order []string
		for _, m := range h.volmgr.AllReadable() {
			order = append(order, m.Volume.(*UnixVolume).Root)
		}
		blocks := [][]byte{[]byte("foo"), []byte("bar"), {}}
		var log []string
		do := func(method, path string, body []byte, auth bool) (int, []byte) {
			var rd *bytes.Reader
			if body != nil {
				rd = bytes.NewReader(body)
			} else {
				rd = bytes.NewReader(nil)
			}
			req := httptest.NewRequest(method, path, rd)
			if auth {
				req.Header.Set("Authorization", "Bearer "+cluster.SystemRootToken)
			}
			rec := httptest.NewRecorder()
			h.ServeHTTP(rec, req)
			return rec.Code, rec.Body.Bytes()
		}
		acked := map[string]time.Time{} // hash -> time of last acked put/touch
		for step := 0; step < 30; step++ {
			data := blocks[rnd.Intn(len(blocks))]
			hash := fmt.Sprintf("%x", md5.Sum(data))
			switch rnd.Intn(8) {
			case 0, 1: // PUT
				code, _ := do("PUT", "/"+hash, data, false)
				log = append(log, fmt.Sprintf("PUT %s -> %d", hash[:4], code))
				if code == 200 {
					acked[hash] = time.Now()
				}
			case 2: // age a copy artificially (simulates passage of time)
				d := dirs[rnd.Intn(len(dirs))]
				fn := filepath.Join(d, hash[:3], hash)
				if _, err := os.Stat(fn); err == nil {
					old := time.Now().Add(-ttl - time.Duration(rnd.Intn(3600))*time.Second)
					os.Chtimes(fn, old, old)
					log = append(log, fmt.Sprintf("AGE %s on %d", hash[:4], indexOf(dirs, d)))
					// acked protection lapses for this volume-local copy only if it was the acked one; be conservative:
					delete(acked, hash)
				}
			case 3: // corrupt a copy
				d := dirs[rnd.Intn(len(dirs))]
				fn := filepath.Join(d, hash[:3], hash)
				if fi, err := os.Stat(fn); err == nil {
					ioutil.WriteFile(fn, append(append([]byte(nil), data...), 'x'), 0644)
					os.Chtimes(fn, fi.ModTime(), fi.ModTime())
					log = append(log, fmt.Sprintf("CORRUPT %s on %d", hash[:4], indexOf(dirs, d)))
					delete(acked, hash)
				}
			case 4: // DELETE
				code, body := do("DELETE", "/"+hash, nil, true)
				log = append(log, fmt.Sprintf("DELETE %s -> %d %s", hash[:4], code, strings.TrimSpace(string(body))))
			case 5: // TOUCH
				code, _ := do("TOUCH", "/"+hash, nil, true)
				log = append(log, fmt.Sprintf("TOUCH %s -> %d", hash[:4], code))
				if code == 200 {
					acked[hash] = time.Now()
				}
			case 6: // untrash
				code, _ := do("PUT", "/untrash/"+hash, nil, true)
				log = append(log, fmt.Sprintf("UNTRASH %s -> %d", hash[:4], code))
			case 7: // trash list item with mtime of a random volume's copy (or a bogus one)
				d := dirs[rnd.Intn(len(dirs))]
				fn := filepath.Join(d, hash[:3], hash)
				var mt int64 = 12345
				if fi, err := os.Stat(fn); err == nil && rnd.Intn(3) > 0 {
					mt = fi.ModTime().UnixNano()
				}
				TrashItem(h.volmgr, quiet, cluster, TrashRequest{Locator: hash, BlockMtime: mt})
				log = append(log, fmt.Sprintf("TRASHITEM %s mt=%d", hash[:4], mt))
			}
			// invariant checks after every step
			for hsh, at := range acked {
				_ = at
				code, body := do("GET", "/"+hsh, nil, false)
				if code != 200 {
					note("acked block not retrievable within TTL", fmt.Sprintf("seed %d: %v", seed, log))
					delete(acked, hsh)
				} else if fmt.Sprintf("%x", md5.Sum(body)) != hsh {
					note("GET returned wrong data", fmt.Sprintf("seed %d: %v", seed, log))
				}
			}
			for _, b := range blocks {
				hsh := fmt.Sprintf("%x", md5.Sum(b))
				code, body := do("GET", "/"+hsh, nil, false)
				if code == 200 && fmt.Sprintf("%x", md5.Sum(body)) != hsh {
					note("GET 200 with mismatching body", fmt.Sprintf("seed %d: %v", seed, log))
				}
				// completeness: if an intact copy exists on some volume, GET must succeed
				intact := false
				for _, d := range order {
					got, err := ioutil.ReadFile(filepath.Join(d, hsh[:3], hsh))
					if err == nil && bytes.Equal(got, b) {
						intact = true
					}
				}
				if intact && code != 200 {
					note(fmt.Sprintf("intact copy exists but GET -> %d", code), fmt.Sprintf("seed %d: %v", seed, log))
				}
				if !intact && code == 200 {
					note("GET 200 without intact copy", fmt.Sprintf("seed %d: %v", seed, log))
				}
			}
		}
	}
	var keys []string
	for k := range problems {
		keys = append(keys, k)
	}
	sort.Strings(keys)
	for _, k := range keys {
		fmt.Printf("%5d %s\n      e.g. %s\n", problems[k], k, examples[k])
	}
	fmt.Println("keepstore history probe done")
}

func indexOf(xs []string, x string) int {
	for i, y := range xs {
		if y == x {
			return i
		}
	}
	return -1
}
