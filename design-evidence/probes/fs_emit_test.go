//go:build verif

package arvados

import (
	"crypto/md5"
	"fmt"
	"io"
	"math/rand"
	"os"
	"strings"
	"sync"
	"testing"
)

type ekc struct {
	blocks map[string][]byte
	mtx    sync.Mutex
}

func (k *ekc) ReadAt(loc string, p []byte, off int) (int, error) {
	k.mtx.Lock()
	defer k.mtx.Unlock()
	b, ok := k.blocks[loc[:32]]
	if !ok {
		return 0, os.ErrNotExist
	}
	if off > len(b) {
		return 0, io.ErrUnexpectedEOF
	}
	return copy(p, b[off:]), nil
}
func (k *ekc) PutB(p []byte) (string, int, error) {
	if true {
		return "", 0, fmt.Errorf("stub: keep write refused")
	}
	h := fmt.Sprintf("%x", md5.Sum(p))
	k.mtx.Lock()
	defer k.mtx.Unlock()
	k.blocks[h] = append([]byte(nil), p...)
	return fmt.Sprintf("%s+%d", h, len(p)), 1, nil
}
func (k *ekc) LocalLocator(l string) (string, error) { return l, nil }

func natlist(b []byte) string {
	s := make([]string, len(b))
	for i, c := range b {
		s[i] = fmt.Sprint(int(c))
	}
	return "[" + strings.Join(s, ";") + "]"
}

func TestVerifFSEmit(t *testing.T) {
	var out strings.Builder
	out.WriteString("Require Import FileNode FileNodeRun.\nImport ListNotations.\nDefinition cases : list (nat * list op) := [\n")
	ncases := 400
	for seed := int64(0); seed < int64(ncases); seed++ {
		rnd := rand.New(rand.NewSource(seed))
		maxBlockSize = []int{1, 2, 3, 5, 8}[rnd.Intn(5)]
		k := &ekc{blocks: map[string][]byte{}}
		fs, _ := (&Collection{}).FileSystem(nil, k)
		var hs [2]File
		for i := range hs {
			hs[i], _ = fs.OpenFile("f", os.O_RDWR|os.O_CREATE, 0644)
		}
		var ops []string
		for step := 0; step < 40; step++ {
			h := rnd.Intn(2)
			switch rnd.Intn(5) {
			case 0:
				pos := rnd.Intn(20)
				hs[h].Seek(int64(pos), io.SeekStart)
				ops = append(ops, fmt.Sprintf("OSeek %d %d", h, pos))
			case 1, 2:
				n := rnd.Intn(12)
				data := make([]byte, n)
				for i := range data {
					data[i] = byte(1 + rnd.Intn(9))
				}
				wn, err := hs[h].Write(data)
				if err != nil || wn != n {
					t.Fatal("write", err)
				}
				ops = append(ops, fmt.Sprintf("OWrite %d %s", h, natlist(data)))
			case 3:
				n := rnd.Intn(12)
				buf := make([]byte, n)
				rn, err := hs[h].Read(buf)
				eof := "false"
				if err == io.EOF {
					eof = "true"
				} else if err != nil {
					t.Fatal("read", err)
				}
				ops = append(ops, fmt.Sprintf("ORead %d %d %s %s", h, n, natlist(buf[:rn]), eof))
			case 4:
				sz := rnd.Intn(20)
				if err := hs[h].Truncate(int64(sz)); err != nil {
					t.Fatal(err)
				}
				ops = append(ops, fmt.Sprintf("OTrunc %d", sz))
			}
			fi, _ := fs.Stat("f")
			ops = append(ops, fmt.Sprintf("OSize %d", fi.Size()))
			{
				fh := hs[0].(*filehandle)
				fnn := fh.inode.(*filenode)
				fnn.waitPrune()
				fnn.Lock()
				var lens []string
				for _, sg := range fnn.segments {
					lens = append(lens, fmt.Sprint(sg.Len()))
				}
				fnn.Unlock()
				ops = append(ops, fmt.Sprintf("OSegs [%s]", strings.Join(lens, ";")))
			}
		}
		sep := ";"
		if seed == int64(ncases-1) {
			sep = ""
		}
		fmt.Fprintf(&out, "(%d, [%s])%s\n", maxBlockSize, strings.Join(ops, "; "), sep)
	}
	out.WriteString("].\nDefinition BAD := Eval vm_compute in bad_cases cases.\nPrint BAD.\n")
	os.WriteFile("/tmp/exp/coq/Cases.v", []byte(out.String()), 0644)
	fmt.Println("emitted", ncases)
}
