//go:build verif

package main

import (
	"fmt"
	"math/rand"
	"os"
	"sort"
	"strings"
	"testing"

	"git.arvados.org/arvados.git/sdk/go/arvados"
	"git.arvados.org/arvados.git/sdk/go/keepclient"
	"github.com/sirupsen/logrus"
)

func nl(xs []int) string {
	s := make([]string, len(xs))
	for i, x := range xs {
		s[i] = fmt.Sprint(x)
	}
	return "[" + strings.Join(s, ";") + "]"
}

func TestVerifProbe(t *testing.T) {
	var out strings.Builder
	out.WriteString("From Coq Require Import List. Require Import Balance BalanceRun.\nImport ListNotations.\nDefinition cases : list bcase := [\n")
	ncases := 6000
	logger := logrus.New()
	logger.SetOutput(os.Stderr)
	logger.SetLevel(logrus.ErrorLevel)
	first := true
	for seed := int64(0); seed < int64(ncases); seed++ {
		rnd := rand.New(rand.NewSource(seed))
		bal := &Balancer{Logger: logger}
		bal.KeepServices = map[string]*KeepService{}
		nsrv := 1 + rnd.Intn(4)
		classNames := []string{"default", "a", "b"}
		var srvs []*KeepService
		midOf := map[*KeepMount]int{}
		devID := map[string]int{"": 0}
		nextMid := 1
		sharedDev := fmt.Sprintf("shared%d", seed)
		for i := 0; i < nsrv; i++ {
			srv := &KeepService{KeepService: arvados.KeepService{UUID: fmt.Sprintf("zzzzz-bi6l4-%015x", i), ReadOnly: rnd.Intn(6) == 0}, ChangeSet: &ChangeSet{}}
			nm := 1 + rnd.Intn(3)
			usedShared := false
			for j := 0; j < nm; j++ {
				dev := fmt.Sprintf("dev-%d-%d", i, j)
				if rnd.Intn(3) == 0 && !usedShared {
					dev = sharedDev
					usedShared = true
				} else if nm == 1 && rnd.Intn(4) == 0 {
					dev = ""
				}
				var sc map[string]bool
				switch rnd.Intn(4) {
				case 0:
				case 1:
					sc = map[string]bool{"a": true}
				case 2:
					sc = map[string]bool{"default": true, "b": true}
				case 3:
					sc = map[string]bool{"default": true}
				}
				m := &KeepMount{KeepMount: arvados.KeepMount{UUID: fmt.Sprintf("zzzzz-mount-%07d%08d", i, j), DeviceID: dev, ReadOnly: rnd.Intn(8) == 0, Replication: 1 + rnd.Intn(2), StorageClasses: sc}, KeepService: srv}
				srv.mounts = append(srv.mounts, m)
			}
			srvs = append(srvs, srv)
			bal.KeepServices[srv.UUID] = srv
		}
		bal.MinMtime = 100
		bal.cleanupMounts()
		bal.setupLookupTables()
		// class ids in bal.classes order; "default" must be id 0 for the model: remap
		classID := map[string]int{"default": 0}
		for _, c := range classNames {
			if _, ok := classID[c]; !ok {
				classID[c] = len(classID)
			}
		}
		blkid := arvados.SizedDigest(fmt.Sprintf("%032x+1", seed))
		// slots in a fixed order: the model receives the mounts in the order Go will iterate... Go iterates a map.
		// To be deterministic we avoid comparator ties, so initial order is irrelevant.
		var mounts []*KeepMount
		for _, s := range srvs {
			for _, m := range s.mounts {
				mounts = append(mounts, m)
				midOf[m] = nextMid
				nextMid++
				if _, ok := devID[m.DeviceID]; !ok {
					devID[m.DeviceID] = len(devID)
				}
			}
		}
		// replicas: per device (shared device => all its mounts)
		holds := map[string]int64{}
		var replicas []Replica
		for _, m := range mounts {
			key := m.DeviceID
			if key == "" {
				key = "blank:" + m.UUID
			}
			mt, seen := holds[key]
			if !seen {
				switch rnd.Intn(3) {
				case 0:
					mt = -1
				case 1:
					mt = int64(50 + rnd.Intn(3))
				case 2:
					mt = int64(150 + rnd.Intn(2))
				}
				holds[key] = mt
			}
			if mt >= 0 {
				replicas = append(replicas, Replica{m, mt})
			}
		}
		desired := map[string]int{}
		for _, c := range bal.classes {
			if rnd.Intn(2) == 0 {
				desired[c] = rnd.Intn(4)
			}
		}
		// ranks
		uuids := keepclient.NewRootSorter(bal.serviceRoots, string(blkid[:32])).GetSortedRoots()
		rank := make([]int, nsrv)
		for pos, u := range uuids {
			for i, s := range srvs {
				if s.UUID == u {
					rank[i] = pos
				}
			}
		}
		var devs []string
		for d := range devID {
			devs = append(devs, d)
		}
		sort.Slice(devs, func(i, j int) bool { return rendezvousLess(devs[i], devs[j], blkid) })
		devrank := make([]int, len(devID))
		for pos, d := range devs {
			devrank[devID[d]] = pos
		}
		res := bal.balanceBlock(blkid, &BlockState{Desired: desired, Replicas: replicas})
		// collect
		type ch struct{ key, a, b int }
		var chs []ch
		for si, s := range srvs {
			_ = si
			for _, tr := range s.ChangeSet.Trashes {
				chs = append(chs, ch{midOf[tr.From]*2 + 0, midOf[tr.From], int(tr.Mtime)})
			}
			for _, p := range s.ChangeSet.Pulls {
				from := 0
				for i, s2 := range srvs {
					if s2 == p.From {
						from = i
					}
				}
				chs = append(chs, ch{midOf[p.To]*2 + 1, midOf[p.To], from})
			}
		}
		sort.Slice(chs, func(i, j int) bool { return chs[i].key < chs[j].key })
		var chS []string
		for _, c := range chs {
			if c.key%2 == 0 {
				chS = append(chS, fmt.Sprintf("Trash %d %d", c.a, c.b))
			} else {
				chS = append(chS, fmt.Sprintf("Pull %d %d", c.a, c.b))
			}
		}
		var mS []string
		for _, m := range mounts {
			si := 0
			for i, s := range srvs {
				if s == m.KeepService {
					si = i
				}
			}
			var cls []int
			for c := range m.StorageClasses {
				cls = append(cls, classID[c])
			}
			sort.Ints(cls)
			mS = append(mS, fmt.Sprintf("mkm %d %d %d %v %d %s", midOf[m], si, devID[m.DeviceID], m.ReadOnly, m.Replication, nl(cls)))
		}
		var rS []string
		for _, r := range replicas {
			rS = append(rS, fmt.Sprintf("(%d,%d)", midOf[r.KeepMount], r.Mtime))
		}
		var cS []string
		for _, c := range bal.classes {
			cS = append(cS, fmt.Sprintf("(%d,%d)", classID[c], desired[c]))
		}
		if !first {
			out.WriteString(";\n")
		}
		first = false
		fmt.Fprintf(&out, "mkc [%s] [%s] [%s] %s %s [%s] %v", strings.Join(mS, "; "), strings.Join(rS, ";"), strings.Join(cS, ";"), nl(rank), nl(devrank), strings.Join(chS, "; "), res.lost)
	}
	out.WriteString("\n].\nDefinition BAD := Eval vm_compute in bad_cases cases.\nPrint BAD.\n")
	os.WriteFile("/tmp/exp/coq/BCases.v", []byte(out.String()), 0644)
	fmt.Println("emitted", ncases)
}
