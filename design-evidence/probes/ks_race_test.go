//go:build verif

package main

import (
	"bytes"
	"context"
	"crypto/md5"
	"encoding/json"
	"fmt"
	"io/ioutil"
	"net/http/httptest"
	"os"
	"path/filepath"
	"testing"
	"time"

	"git.arvados.org/arvados.git/lib/config"
	"git.arvados.org/arvados.git/sdk/go/arvados"
	"git.arvados.org/arvados.git/sdk/go/ctxlog"
	"github.com/prometheus/client_golang/prometheus"
)

func TestVerifRace(t *testing.T) {
	ldr := config.NewLoader(bytes.NewBufferString("Clusters: {zzzzz: {}}"), ctxlog.TestLogger(t))
	ldr.Path = "-"
	cfg, _ := ldr.Load()
	cluster, _ := cfg.GetCluster("")
	cluster.SystemRootToken = "systemroottokensystemroottokensystemroottoken"
	cluster.Collections.BlobSigning = false
	cluster.Collections.BlobTrash = true
	cluster.Collections.BlobSigningTTL = arvados.Duration(2 * time.Hour)
	cluster.Collections.BlobTrashLifetime = arvados.Duration(24 * time.Hour)
	cluster.Services.Controller.ExternalURL = arvados.URL{Scheme: "http", Host: "localhost:1"}
	d1, _ := ioutil.TempDir("", "ksv")
	defer os.RemoveAll(d1)
	p1, _ := json.Marshal(map[string]interface{}{"Root": d1})
	cluster.Volumes = map[string]arvados.Volume{"zzzzz-nyw5e-000000000000000": {Replication: 1, Driver: "Directory", DriverParameters: p1}}
	h := &handler{}
	if err := h.setup(context.Background(), cluster, "", prometheus.NewRegistry(), testServiceURL); err != nil {
		t.Fatal(err)
	}
	body := []byte("hello world")
	hash := fmt.Sprintf("%x", md5.Sum(body))
	// plant an old, corrupt copy
	os.MkdirAll(filepath.Join(d1, hash[:3]), 0755)
	fn := filepath.Join(d1, hash[:3], hash)
	ioutil.WriteFile(fn, []byte("hellO world"), 0644)
	old := time.Now().Add(-10 * time.Hour)
	os.Chtimes(fn, old, old)

	reached := make(chan struct{})
	resume := make(chan struct{})
	verifHook = func(label string) {
		close(reached)
		<-resume
	}
	done := make(chan struct{})
	go func() {
		req := httptest.NewRequest("DELETE", "/"+hash, nil)
		req.Header.Set("Authorization", "Bearer "+cluster.SystemRootToken)
		rec := httptest.NewRecorder()
		h.ServeHTTP(rec, req)
		fmt.Println("DELETE", rec.Code, rec.Body.String())
		close(done)
	}()
	<-reached
	verifHook = nil
	req := httptest.NewRequest("PUT", "/"+hash, bytes.NewReader(body))
	rec := httptest.NewRecorder()
	h.ServeHTTP(rec, req)
	fmt.Println("PUT", rec.Code, rec.Body.String())
	close(resume)
	<-done
	req = httptest.NewRequest("GET", "/"+hash, nil)
	rec = httptest.NewRecorder()
	h.ServeHTTP(rec, req)
	fmt.Println("GET after acknowledged PUT:", rec.Code)
	files, _ := ioutil.ReadDir(filepath.Join(d1, hash[:3]))
	for _, f := range files {
		fmt.Println("  file", f.Name(), f.Size())
	}
}
