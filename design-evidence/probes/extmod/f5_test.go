package verifexp

import (
	"fmt"
	"testing"

	"git.arvados.org/arvados.git/sdk/go/manifest"
)

func TestF5(t *testing.T) {
	// file literally named  a\040b  (backslash, 0,4,0) is written in a manifest as a\134040b
	mt := ". acbd18db4cc2f85cedef654fccc4a4d8+3 0:3:a\\134040b 0:3:c\\072d\n"
	m := manifest.Manifest{Text: mt}
	out := m.Extract(".", ".")
	fmt.Printf("in : %q\nout: %q err=%v\n", mt, out.Text, out.Err)
	for s := range (&manifest.Manifest{Text: out.Text}).StreamIter() {
		for _, f := range s.FileStreamSegments {
			fmt.Printf("  reparsed name %q\n", f.Name)
		}
	}
	for s := range m.StreamIter() {
		for _, f := range s.FileStreamSegments {
			fmt.Printf("  original name %q\n", f.Name)
		}
	}
}
