package verifexp

import (
	"bytes"
	"crypto/md5"
	"fmt"
	"io/ioutil"
	"math/rand"
	"os"
	"sort"
	"strings"
	"testing"

	"git.arvados.org/arvados.git/sdk/go/arvados"
	"git.arvados.org/arvados.git/sdk/go/manifest"
)

func esc(s string) string {
	var b strings.Builder
	for i := 0; i < len(s); i++ {
		c := s[i]
		if c <= 32 || c == ':' || c == '\\' {
			fmt.Fprintf(&b, "\\%03o", c)
		} else {
			b.WriteByte(c)
		}
	}
	return b.String()
}

// generate a valid manifest plus reference contents
func genManifest(rnd *rand.Rand, k *kc, zeroBlocks, weirdNames bool) (string, map[string][]byte) {
	ref := map[string][]byte{}
	var mt strings.Builder
	nstreams := 1 + rnd.Intn(3)
	namepool := []string{"a", "b", "c d", "e:f", "g", "h.txt"}
	if weirdNames {
		namepool = append(namepool, "x\\y", "q\\040r", "\x01\x7f\xff", "tab\there")
	}
	for si := 0; si < nstreams; si++ {
		sname := "."
		if si > 0 {
			sname = "./" + []string{"d1", "d1/sub", "d 2"}[rnd.Intn(3)]
		}
		var stream []byte
		var locs []string
		nb := 1 + rnd.Intn(4)
		for b := 0; b < nb; b++ {
			sz := rnd.Intn(6)
			if !zeroBlocks && sz == 0 {
				sz = 1
			}
			data := make([]byte, sz)
			for i := range data {
				data[i] = byte('a' + rnd.Intn(26))
			}
			loc, _, _ := k.PutB(data)
			locs = append(locs, loc)
			stream = append(stream, data...)
		}
		var toks []string
		nf := 1 + rnd.Intn(4)
		for f := 0; f < nf; f++ {
			name := namepool[rnd.Intn(len(namepool))]
			pos := 0
			if len(stream) > 0 {
				pos = rnd.Intn(len(stream) + 1)
			}
			ln := 0
			if len(stream)-pos > 0 {
				ln = rnd.Intn(len(stream) - pos + 1)
			}
			if !zeroBlocks && ln == 0 {
				pos = 0 // avoid known F2 (mid-block empty range)
			}
			toks = append(toks, fmt.Sprintf("%d:%d:%s", pos, ln, esc(name)))
			path := sname + "/" + name
			ref[path] = append(ref[path], stream[pos:pos+ln]...)
		}
		fmt.Fprintf(&mt, "%s %s %s\n", esc(sname), strings.Join(locs, " "), strings.Join(toks, " "))
	}
	return mt.String(), ref
}

func readAll(fs arvados.CollectionFileSystem, ref map[string][]byte) (string, bool) {
	var paths []string
	for p := range ref {
		paths = append(paths, p)
	}
	sort.Strings(paths)
	for _, p := range paths {
		f, err := fs.OpenFile(p, os.O_RDONLY, 0)
		if err != nil {
			return fmt.Sprintf("open %q: %v", p, err), false
		}
		got, err := ioutil.ReadAll(f)
		if err != nil || !bytes.Equal(got, ref[p]) {
			return fmt.Sprintf("read %q: got %q want %q err %v", p, got, ref[p], err), false
		}
	}
	return "", true
}

func TestManifestCodecs(t *testing.T) {
	bad := 0
	for seed := int64(0); seed < 4000 && bad < 6; seed++ {
		rnd := rand.New(rand.NewSource(seed))
		k := &kc{blocks: map[string][]byte{}}
		k.PutB(nil)
		mt, ref := genManifest(rnd, k, false, seed%2 == 1)
		fs, err := (&arvados.Collection{ManifestText: mt}).FileSystem(nil, k)
		if err != nil {
			fmt.Printf("LOAD FAIL %q: %v\n", mt, err)
			bad++
			continue
		}
		if msg, ok := readAll(fs, ref); !ok {
			fmt.Printf("FS MISMATCH %q: %s\n", mt, msg)
			bad++
			continue
		}
		out, err := fs.MarshalManifest(".")
		if err != nil {
			fmt.Printf("MARSHAL FAIL %q: %v\n", mt, err)
			bad++
			continue
		}
		fs2, err := (&arvados.Collection{ManifestText: out}).FileSystem(nil, k)
		if err != nil {
			fmt.Printf("RELOAD FAIL %q -> %q: %v\n", mt, out, err)
			bad++
			continue
		}
		if msg, ok := readAll(fs2, ref); !ok {
			fmt.Printf("ROUNDTRIP MISMATCH %q -> %q: %s\n", mt, out, msg)
			bad++
			continue
		}
		if seed%2 == 0 { // manifest package (no backslashes: F5 known)
			m := manifest.Manifest{Text: mt}
			ex := m.Extract(".", ".")
			if ex.Err != nil {
				fmt.Printf("EXTRACT ERR %q: %v\n", mt, ex.Err)
				bad++
				continue
			}
			fs3, err := (&arvados.Collection{ManifestText: ex.Text}).FileSystem(nil, k)
			if err != nil {
				fmt.Printf("EXTRACT RELOAD FAIL %q -> %q: %v\n", mt, ex.Text, err)
				bad++
				continue
			}
			if msg, ok := readAll(fs3, ref); !ok {
				fmt.Printf("EXTRACT MISMATCH %q -> %q: %s\n", mt, ex.Text, msg)
				bad++
				continue
			}
			if arvados.PortableDataHash(mt) != fmt.Sprintf("%x+%d", md5.Sum([]byte(mt)), len(mt)) {
				fmt.Printf("PDH MISMATCH %q\n", mt)
				bad++
			}
		}
	}
	fmt.Println("manifest codec probe done, bad =", bad)
}
