package verifexp

import (
	"fmt"
	"math/rand"
	"os"
	"strings"
	"testing"

	"git.arvados.org/arvados.git/lib/dispatchcloud"
	"git.arvados.org/arvados.git/sdk/go/arvados"
)

func TestChooseEmit(t *testing.T) {
	var out strings.Builder
	out.WriteString("From Coq Require Import List ZArith Bool. Require Import Choose.\nImport ListNotations.\nLocal Open Scope Z_scope.\nDefinition cases := [\n")
	n := 3000
	for seed := int64(0); seed < int64(n); seed++ {
		rnd := rand.New(rand.NewSource(seed))
		cc := &arvados.Cluster{InstanceTypes: arvados.InstanceTypeMap{}}
		reserve := []int64{0, 1, 256 << 20, 1000}[rnd.Intn(4)]
		cc.Containers.ReserveExtraRAM = arvados.ByteSize(reserve)
		nt := 1 + rnd.Intn(8)
		var ts []string
		for i := 0; i < nt; i++ {
			name := fmt.Sprintf("t%d", i)
			it := arvados.InstanceType{Name: name, ProviderType: name, VCPUs: 1 + rnd.Intn(4),
				RAM: arvados.ByteSize(int64(1+rnd.Intn(4)) * 1000), Scratch: arvados.ByteSize(int64(rnd.Intn(4)) * 1000),
				Price: float64(rnd.Intn(4)) / 4, Preemptible: rnd.Intn(3) == 0}
			cc.InstanceTypes[name] = it
			ts = append(ts, fmt.Sprintf("mk %d %d %d %d %v", int64(it.Price*4), int64(it.RAM), it.VCPUs, int64(it.Scratch), it.Preemptible))
		}
		ctr := &arvados.Container{}
		ctr.RuntimeConstraints.VCPUs = 1 + rnd.Intn(4)
		base := int64(1+rnd.Intn(4)) * 1000
		x := base*95/100 + int64(rnd.Intn(5)) - 2 - reserve
		if x < 0 {
			x = 0
		}
		ctr.RuntimeConstraints.RAM = x / 2
		ctr.RuntimeConstraints.KeepCacheRAM = x - x/2
		ctr.SchedulingParameters.Preemptible = rnd.Intn(3) == 0
		if rnd.Intn(2) == 0 {
			ctr.Mounts = map[string]arvados.Mount{"/tmp": {Kind: "tmp", Capacity: int64(rnd.Intn(4))*1000 + int64(rnd.Intn(3)) - 1}}
		}
		got, err := dispatchcloud.ChooseInstanceType(cc, ctr)
		res := "None"
		if err == nil {
			res = fmt.Sprintf("Some (%d)", int64(got.Price*4))
		}
		sep := ";"
		if seed == int64(n-1) {
			sep = ""
		}
		fmt.Fprintf(&out, "(%d, %d, %d, %d, %d, %v, [%s], %s)%s\n", ctr.RuntimeConstraints.RAM, ctr.RuntimeConstraints.KeepCacheRAM, reserve,
			ctr.RuntimeConstraints.VCPUs, dispatchcloud.EstimateScratchSpace(ctr), ctr.SchedulingParameters.Preemptible, strings.Join(ts, "; "), res, sep)
	}
	out.WriteString("].\n")
	out.WriteString(`Definition ok (c : Z * Z * Z * Z * Z * bool * list itype * option Z) : bool :=
  let '(r, kc, res, v, s, p, ts, expect) := c in
  let n := {| n_ram := need_ram r kc res; n_vcpus := v; n_scratch := s; n_preempt := p |} in
  match choose n ts, expect with
  | Some t, Some pr => price t =? pr
  | None, None => true
  | _, _ => false
  end.
Definition BAD := Eval vm_compute in length (filter (fun c => negb (ok c)) cases).
Print BAD.
`)
	os.WriteFile("/tmp/exp/coq/CCases.v", []byte(out.String()), 0644)
}
