package verifexp

import (
	"crypto/md5"
	"fmt"
	"io"
	"io/ioutil"
	"os"
	"testing"

	"git.arvados.org/arvados.git/sdk/go/arvados"
	"git.arvados.org/arvados.git/sdk/go/auth"
	"git.arvados.org/arvados.git/sdk/go/manifest"
)

type kc struct{ blocks map[string][]byte }

func (k *kc) ReadAt(loc string, p []byte, off int) (int, error) {
	b, ok := k.blocks[loc[:32]]
	if !ok {
		return 0, os.ErrNotExist
	}
	if off > len(b) {
		return 0, io.ErrUnexpectedEOF
	}
	return copy(p, b[off:]), nil
}
func (k *kc) PutB(p []byte) (string, int, error) {
	h := fmt.Sprintf("%x", md5.Sum(p))
	k.blocks[h] = append([]byte(nil), p...)
	return fmt.Sprintf("%s+%d", h, len(p)), 1, nil
}
func (k *kc) LocalLocator(l string) (string, error) { return l, nil }

func TestFS(t *testing.T) {
	k := &kc{blocks: map[string][]byte{}}
	loc, _, _ := k.PutB([]byte("0123456789"))
	mt := ". " + loc + " 3:0:f 0:5:f\n"
	fs, err := (&arvados.Collection{ManifestText: mt}).FileSystem(nil, k)
	if err != nil {
		t.Fatal(err)
	}
	f, err := fs.OpenFile("f", os.O_RDONLY, 0)
	if err != nil {
		t.Fatal(err)
	}
	f.Seek(1, io.SeekStart)
	f.Seek(0, io.SeekStart)
	buf, err := ioutil.ReadAll(f)
	fmt.Printf("FS read after seek: %q err=%v size=%d\n", buf, err, f.Size())
	f2, _ := fs.OpenFile("f", os.O_RDONLY, 0)
	buf, err = ioutil.ReadAll(f2)
	fmt.Printf("FS fresh read: %q err=%v\n", buf, err)
	m, err := fs.MarshalManifest(".")
	fmt.Printf("marshal: %q %v\n", m, err)
}

func TestSalt(t *testing.T) {
	s, err := auth.SaltToken("v2/zzzzz-gj3su-000000000000000/0123456789abcdefghijklmnopqrstuvwxyzabcd", "aaaaa")
	fmt.Printf("salt 40 nonhex: %q %v\n", s, err)
}

func TestManifestPanic(t *testing.T) {
	mt := ". 37b51d194a7513e45b56f6524f2d51f2+3 d41d8cd98f00b204e9800998ecf8427e+0 acbd18db4cc2f85cedef654fccc4a4d8+3 3:3:f\n"
	m := manifest.Manifest{Text: mt}
	fmt.Printf("extract: %q\n", m.Extract(".", ".").Text)
}
