package verifexp

import (
	"crypto/hmac"
	"crypto/md5"
	"crypto/sha1"
	"fmt"
	"math/rand"
	"sort"
	"strings"
	"testing"
	"time"

	"git.arvados.org/arvados.git/sdk/go/arvados"
	"git.arvados.org/arvados.git/sdk/go/keepclient"
)

func refSig(key, hash, tok string, exp int64, ttl time.Duration) string {
	m := hmac.New(sha1.New, []byte(key))
	fmt.Fprintf(m, "%s@%s@%08x@%x", hash, tok, exp, int64(ttl.Seconds()))
	return fmt.Sprintf("%x", m.Sum(nil))
}

func TestSig(t *testing.T) {
	bad := 0
	now := time.Now()
	for seed := int64(0); seed < 3000 && bad < 6; seed++ {
		rnd := rand.New(rand.NewSource(seed))
		hash := fmt.Sprintf("%x", md5.Sum([]byte(fmt.Sprint(seed))))
		hints := []string{"", "+123", "+123+Kzzzzz", "+5+Bfoo@bar_baz-1"}[rnd.Intn(4)]
		tok := []string{"tok", "v2/zzzzz-gj3su-0/abc", "a@b+c", "x"}[rnd.Intn(4)]
		key := []string{"k", "key with spaces", "0123456789abcdef"}[rnd.Intn(3)]
		ttl := time.Duration(1+rnd.Intn(1000000)) * time.Second
		exp := now.Add(time.Duration(rnd.Intn(200000)-100000) * time.Second)
		if d := exp.Sub(now); d > -3*time.Second && d < 3*time.Second {
			continue
		}
		signed := arvados.SignLocator(hash+hints, tok, exp, ttl, []byte(key))
		want := hash + hints + "+A" + refSig(key, hash, tok, exp.Unix(), ttl) + fmt.Sprintf("@%08x", exp.Unix())
		if signed != want {
			fmt.Println("SIGN MISMATCH", signed, want)
			bad++
			continue
		}
		err := arvados.VerifySignature(signed, tok, ttl, []byte(key))
		var wantErr error
		if exp.Before(now) {
			wantErr = arvados.ErrSignatureExpired
		}
		if err != wantErr {
			fmt.Println("VERIFY", signed, err, wantErr)
			bad++
		}
		if exp.Before(now) {
			continue
		}
		// every single-character perturbation must fail
		for i := 0; i < len(signed); i++ {
			for _, c := range []byte{'0', 'a', 'A', '+', '@', 'f'} {
				if signed[i] == c {
					continue
				}
				p := signed[:i] + string(c) + signed[i+1:]
				if arvados.VerifySignature(p, tok, ttl, []byte(key)) == nil {
					// acceptable only if the perturbation touches hints outside hash/sig/exp (other hints are not signed)
					hi := strings.Index(signed, "+A")
					if i >= 32 && i < hi {
						continue
					}
					// later expiry with same sig cannot verify; anything else is a failure
					fmt.Printf("PERTURBATION ACCEPTED %q -> %q\n", signed, p)
					bad++
				}
			}
		}
		for _, alt := range []struct {
			tok string
			ttl time.Duration
			key string
		}{{tok + "x", ttl, key}, {tok, ttl + time.Second, key}, {tok, ttl, key + "x"}} {
			if arvados.VerifySignature(signed, alt.tok, alt.ttl, []byte(alt.key)) == nil {
				fmt.Println("ALT ACCEPTED", signed, alt)
				bad++
			}
		}
	}
	fmt.Println("sig probe bad =", bad)
}

func TestSorter(t *testing.T) {
	bad := 0
	for seed := int64(0); seed < 5000 && bad < 5; seed++ {
		rnd := rand.New(rand.NewSource(seed))
		n := 1 + rnd.Intn(12)
		roots := map[string]string{}
		for i := 0; i < n; i++ {
			u := fmt.Sprintf("zzzzz-bi6l4-%015x", rnd.Intn(1000))
			if rnd.Intn(5) == 0 {
				u = fmt.Sprintf("short%d", rnd.Intn(50))
			}
			roots[u] = "http://" + u
		}
		hash := fmt.Sprintf("%x", md5.Sum([]byte(fmt.Sprint(seed))))
		got := keepclient.NewRootSorter(roots, hash).GetSortedRoots()
		type kv struct{ w, r string }
		var ref []kv
		for u, r := range roots {
			s := u
			if len(u) == 27 {
				s = u[12:]
			}
			ref = append(ref, kv{fmt.Sprintf("%x", md5.Sum([]byte(hash+s))), r})
		}
		sort.Slice(ref, func(i, j int) bool { return ref[i].w > ref[j].w })
		for i := range ref {
			if got[i] != ref[i].r {
				fmt.Println("SORT MISMATCH", seed)
				bad++
				break
			}
		}
		// removal stability
		for u := range roots {
			sub := map[string]string{}
			for k, v := range roots {
				if k != u {
					sub[k] = v
				}
			}
			g2 := keepclient.NewRootSorter(sub, hash).GetSortedRoots()
			var filt []string
			for _, r := range got {
				if r != roots[u] {
					filt = append(filt, r)
				}
			}
			if strings.Join(g2, ",") != strings.Join(filt, ",") {
				fmt.Println("REMOVAL UNSTABLE", seed)
				bad++
			}
			break
		}
	}
	fmt.Println("sorter probe bad =", bad)
}
