package verifexp

import (
	"fmt"
	"os"
	"testing"

	"git.arvados.org/arvados.git/sdk/go/arvados"
)

func TestRenameSelf(t *testing.T) {
	k := &kc{blocks: map[string][]byte{}}
	fs, _ := (&arvados.Collection{}).FileSystem(nil, k)
	f, _ := fs.OpenFile("a", os.O_CREATE|os.O_WRONLY, 0644)
	f.Write([]byte("hello"))
	f.Close()
	fs.Mkdir("d", 0755)
	g, _ := fs.OpenFile("d/x", os.O_CREATE|os.O_WRONLY, 0644)
	g.Write([]byte("x"))
	g.Close()
	fmt.Println("rename a a:", fs.Rename("a", "a"))
	_, err := fs.Stat("a")
	fmt.Println("stat a after:", err)
	fmt.Println("rename d d:", fs.Rename("d", "d"))
	_, err = fs.Stat("d/x")
	fmt.Println("stat d/x after:", err)
	fmt.Println("rename d ./d/:", fs.Rename("d", "d/"))
	m, err := fs.MarshalManifest(".")
	fmt.Printf("manifest %q %v\n", m, err)
}
