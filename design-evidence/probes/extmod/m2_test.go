package verifexp

import (
	"fmt"
	"math/rand"
	"strings"
	"testing"

	"git.arvados.org/arvados.git/sdk/go/arvados"
	"git.arvados.org/arvados.git/sdk/go/manifest"
)

func TestExtractPairs(t *testing.T) {
	bad := 0
	n := 0
	for seed := int64(0); seed < 3000 && bad < 6; seed++ {
		rnd := rand.New(rand.NewSource(seed))
		k := &kc{blocks: map[string][]byte{}}
		k.PutB(nil)
		mt, ref := genManifest(rnd, k, false, false)
		m := manifest.Manifest{Text: mt}
		// choose a source: a directory or a file
		var paths []string
		for p := range ref {
			paths = append(paths, p)
		}
		src := []string{".", "./d1", "./d1/sub", "./d 2"}[rnd.Intn(4)]
		isFile := false
		if rnd.Intn(2) == 0 {
			src = paths[rnd.Intn(len(paths))]
			isFile = true
		}
		reloc := []string{".", "./out", "./out/", "./x/y"}[rnd.Intn(4)]
		// expected
		exp := map[string][]byte{}
		if isFile {
			base := src[strings.LastIndex(src, "/")+1:]
			var dst string
			switch {
			case reloc == ".":
				dst = "./" + base
			case strings.HasSuffix(reloc, "/"):
				dst = reloc + base
			default:
				dst = reloc // renamed to last component of reloc, in stream dirname(reloc)
			}
			exp[dst] = ref[src]
		} else {
			for p, d := range ref {
				if strings.HasPrefix(p, src+"/") {
					r := strings.TrimSuffix(reloc, "/")
					exp[r+p[len(src):]] = d
				}
			}
		}
		// a path that is both a file and a dir prefix etc. is not generated
		ex := m.Extract(src, reloc)
		if ex.Err != nil {
			fmt.Printf("EXTRACT ERR %q %q %q: %v\n", mt, src, reloc, ex.Err)
			bad++
			continue
		}
		if len(exp) == 0 {
			if ex.Text != "" {
				fmt.Printf("EXTRACT NONEMPTY %q %q %q -> %q\n", mt, src, reloc, ex.Text)
				bad++
			}
			continue
		}
		n++
		fs, err := (&arvados.Collection{ManifestText: ex.Text}).FileSystem(nil, k)
		if err != nil {
			fmt.Printf("RELOAD FAIL %q %q %q -> %q: %v\n", mt, src, reloc, ex.Text, err)
			bad++
			continue
		}
		if msg, ok := readAll(fs, exp); !ok {
			fmt.Printf("EXTRACT MISMATCH %q src=%q reloc=%q -> %q: %s\n", mt, src, reloc, ex.Text, msg)
			bad++
		}
	}
	fmt.Println("extract pairs probe done, nontrivial", n, "bad", bad)
}
