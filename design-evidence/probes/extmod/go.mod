module verifexp
go 1.13
require git.arvados.org/arvados.git v0.0.0
replace git.arvados.org/arvados.git => /repo
replace github.com/AdRoll/goamz => github.com/arvados/goamz v0.0.0-20190905141525-1bba09f407ef
