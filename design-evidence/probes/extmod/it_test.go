package verifexp

import (
	"fmt"
	"math/rand"
	"testing"

	"git.arvados.org/arvados.git/lib/dispatchcloud"
	"git.arvados.org/arvados.git/sdk/go/arvados"
)

func TestChoose(t *testing.T) {
	bad := 0
	for seed := int64(0); seed < 20000 && bad < 5; seed++ {
		rnd := rand.New(rand.NewSource(seed))
		cc := &arvados.Cluster{InstanceTypes: arvados.InstanceTypeMap{}}
		cc.Containers.ReserveExtraRAM = arvados.ByteSize([]int64{0, 1, 256 << 20, 1000}[rnd.Intn(4)])
		nt := 1 + rnd.Intn(8)
		for i := 0; i < nt; i++ {
			name := fmt.Sprintf("t%d", i)
			cc.InstanceTypes[name] = arvados.InstanceType{
				Name: name, ProviderType: name,
				VCPUs:       1 + rnd.Intn(4),
				RAM:         arvados.ByteSize(int64(1+rnd.Intn(4)) * 1000),
				Scratch:     arvados.ByteSize(int64(rnd.Intn(4)) * 1000),
				Price:       float64(rnd.Intn(4)) / 4,
				Preemptible: rnd.Intn(3) == 0,
			}
		}
		ctr := &arvados.Container{}
		ctr.RuntimeConstraints.VCPUs = 1 + rnd.Intn(4)
		base := int64(1+rnd.Intn(4)) * 1000
		// around the boundary: need = (x*100)/95 ; pick x so that need is near base
		x := base*95/100 + int64(rnd.Intn(5)) - 2 - int64(cc.Containers.ReserveExtraRAM)
		if x < 0 {
			x = 0
		}
		ctr.RuntimeConstraints.RAM = x / 2
		ctr.RuntimeConstraints.KeepCacheRAM = x - x/2
		ctr.SchedulingParameters.Preemptible = rnd.Intn(3) == 0
		if rnd.Intn(2) == 0 {
			ctr.Mounts = map[string]arvados.Mount{"/tmp": {Kind: "tmp", Capacity: int64(rnd.Intn(4))*1000 + int64(rnd.Intn(3)) - 1}}
		}
		got, err := dispatchcloud.ChooseInstanceType(cc, ctr)
		needRAM := (ctr.RuntimeConstraints.RAM + ctr.RuntimeConstraints.KeepCacheRAM + int64(cc.Containers.ReserveExtraRAM)) * 100 / 95
		needScratch := dispatchcloud.EstimateScratchSpace(ctr)
		ok := func(it arvados.InstanceType) bool {
			return int64(it.RAM) >= needRAM && it.VCPUs >= ctr.RuntimeConstraints.VCPUs && int64(it.Scratch) >= needScratch && it.Preemptible == ctr.SchedulingParameters.Preemptible
		}
		any := false
		best := 1e18
		for _, it := range cc.InstanceTypes {
			if ok(it) {
				any = true
				if it.Price < best {
					best = it.Price
				}
			}
		}
		if any != (err == nil) {
			fmt.Println("SAT MISMATCH", seed, err)
			bad++
		} else if err == nil && (!ok(got) || got.Price != best) {
			fmt.Println("NOT OPTIMAL", seed, got, best)
			bad++
		}
	}
	fmt.Println("choose probe bad =", bad)
}
