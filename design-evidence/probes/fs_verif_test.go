//go:build verif

package arvados

import (
	"bytes"
	"crypto/md5"
	"fmt"
	"io"
	"math/rand"
	"os"
	"sync"
	"time"
	"testing"
)

type vkc struct {
	blocks map[string][]byte
	mtx    sync.Mutex
	failp  int
	rnd    *rand.Rand
	fails  int
	gated  bool
	gates  []chan struct{}
}

func (k *vkc) ReadAt(loc string, p []byte, off int) (int, error) {
	k.mtx.Lock()
	defer k.mtx.Unlock()
	b, ok := k.blocks[loc[:32]]
	if !ok {
		return 0, os.ErrNotExist
	}
	if off > len(b) {
		return 0, io.ErrUnexpectedEOF
	}
	return copy(p, b[off:]), nil
}
func (k *vkc) PutB(p []byte) (string, int, error) {
	p = append([]byte(nil), p...)
	if k.gated {
		g := make(chan struct{})
		k.mtx.Lock()
		k.gates = append(k.gates, g)
		k.mtx.Unlock()
		<-g
	}
	h := fmt.Sprintf("%x", md5.Sum(p))
	k.mtx.Lock()
	defer k.mtx.Unlock()
	if k.failp > 0 && k.rnd.Intn(100) < k.failp {
		k.fails++
		return "", 0, fmt.Errorf("stub put failure")
	}
	k.blocks[h] = append([]byte(nil), p...)
	return fmt.Sprintf("%s+%d", h, len(p)), 1, nil
}
func (k *vkc) release(n int, rnd *rand.Rand) {
	k.mtx.Lock()
	for i := 0; i < n && len(k.gates) > 0; i++ {
		j := rnd.Intn(len(k.gates))
		close(k.gates[j])
		k.gates = append(k.gates[:j], k.gates[j+1:]...)
	}
	k.mtx.Unlock()
	time.Sleep(200 * time.Microsecond)
}
func (k *vkc) pending() int {
	k.mtx.Lock()
	defer k.mtx.Unlock()
	return len(k.gates)
}
func (k *vkc) LocalLocator(l string) (string, error) { return l, nil }

type vhandle struct {
	f    File
	name string
	off  int64
	app  bool
	r, w bool
}

func TestVerifFSRandom(t *testing.T) {
	for seed := int64(0); seed < 600; seed++ {
		rnd := rand.New(rand.NewSource(seed))
		maxBlockSize = []int{1, 2, 3, 5, 8}[rnd.Intn(5)]
		k := &vkc{blocks: map[string][]byte{}, failp: []int{0, 20, 60}[rnd.Intn(3)], rnd: rand.New(rand.NewSource(seed + 99)), gated: true}
		stopBg := make(chan struct{})
		go func() {
			r := rand.New(rand.NewSource(seed + 7))
			for {
				select {
				case <-stopBg:
					return
				default:
				}
				if k.pending() >= 4 {
					k.release(1, r)
				} else {
					time.Sleep(20 * time.Microsecond)
				}
			}
		}()
		fs, err := (&Collection{}).FileSystem(nil, k)
		if err != nil {
			t.Fatal(err)
		}
		model := map[string][]byte{}
		var hs []*vhandle
		names := []string{"a", "b", "c"}
		var log []string
		fail := func(msg string) {
			t.Fatalf("seed %d mbs %d: %s\nlog: %v", seed, maxBlockSize, msg, log)
		}
		for step := 0; step < 60; step++ {
			time.Sleep(50 * time.Microsecond)
			if k.pending() >= 3 || rnd.Intn(3) == 0 {
				k.release(1+rnd.Intn(3), rnd)
			}
			switch op := rnd.Intn(10); {
			case op == 0 || len(hs) == 0:
				name := names[rnd.Intn(3)]
				flag := []int{os.O_RDWR, os.O_RDWR | os.O_CREATE, os.O_RDWR | os.O_CREATE | os.O_TRUNC, os.O_RDWR | os.O_CREATE | os.O_APPEND, os.O_RDONLY, os.O_WRONLY | os.O_CREATE}[rnd.Intn(6)]
				f, err := fs.OpenFile(name, flag, 0644)
				_, exists := model[name]
				log = append(log, fmt.Sprintf("open %s %x -> %v", name, flag, err))
				if !exists && flag&os.O_CREATE == 0 {
					if err == nil {
						fail("open nonexistent succeeded")
					}
					continue
				}
				if err != nil {
					fail("open failed: " + err.Error())
				}
				if !exists || flag&os.O_TRUNC != 0 {
					model[name] = nil
				}
				acc := flag & (os.O_RDWR | os.O_WRONLY)
				hs = append(hs, &vhandle{f: f, name: name, app: flag&os.O_APPEND != 0, r: acc != os.O_WRONLY, w: acc != os.O_RDONLY})
			case op <= 3:
				h := hs[rnd.Intn(len(hs))]
				n := rnd.Intn(12)
				data := make([]byte, n)
				for i := range data {
					data[i] = byte('A' + rnd.Intn(26))
				}
				wn, err := h.f.Write(data)
				log = append(log, fmt.Sprintf("write %s@%d %q -> %d %v", h.name, h.off, data, wn, err))
				if !h.w {
					if err == nil {
						fail("write on RO handle ok")
					}
					continue
				}
				if err != nil || wn != n {
					fail("write failed")
				}
				m := model[h.name]
				if h.app {
					h.off = int64(len(m))
				}
				for int64(len(m)) < h.off+int64(n) {
					m = append(m, 0)
				}
				copy(m[h.off:], data)
				model[h.name] = m
				h.off += int64(n)
			case op <= 5:
				h := hs[rnd.Intn(len(hs))]
				n := rnd.Intn(12)
				buf := make([]byte, n)
				rn, err := io.ReadFull(h.f, buf)
				log = append(log, fmt.Sprintf("read %s@%d n=%d -> %d %v", h.name, h.off, n, rn, err))
				if !h.r {
					if err == nil && n > 0 {
						fail("read on WO handle ok")
					}
					continue
				}
				m := model[h.name]
				var exp []byte
				if h.off < int64(len(m)) {
					exp = m[h.off:]
					if len(exp) > n {
						exp = exp[:n]
					}
				}
				if !bytes.Equal(buf[:rn], exp) {
					fail(fmt.Sprintf("read mismatch got %q want %q", buf[:rn], exp))
				}
				h.off += int64(rn)
			case op == 6:
				h := hs[rnd.Intn(len(hs))]
				pos := int64(rnd.Intn(20))
				got, err := h.f.Seek(pos, io.SeekStart)
				log = append(log, fmt.Sprintf("seek %s %d -> %d %v", h.name, pos, got, err))
				h.off = pos
			case op == 7:
				h := hs[rnd.Intn(len(hs))]
				sz := int64(rnd.Intn(20))
				err := h.f.Truncate(sz)
				log = append(log, fmt.Sprintf("trunc %s %d -> %v", h.name, sz, err))
				if err != nil {
					fail("truncate failed")
				}
				m := model[h.name]
				for int64(len(m)) < sz {
					m = append(m, 0)
				}
				model[h.name] = m[:sz]
			case op == 8:
				stop := make(chan struct{})
				go func() {
					for {
						select {
						case <-stop:
							return
						default:
							k.release(10, rand.New(rand.NewSource(1)))
						}
					}
				}()
				err := fs.Flush("", rnd.Intn(2) == 0)
				log = append(log, fmt.Sprintf("flush -> %v", err))
				close(stop)
			case op == 9:
				stop := make(chan struct{})
				go func() {
					for {
						select {
						case <-stop:
							return
						default:
							k.release(10, rand.New(rand.NewSource(1)))
						}
					}
				}()
				k.mtx.Lock()
				f0 := k.fails
				k.mtx.Unlock()
				mt, err := fs.MarshalManifest(".")
				close(stop)
				log = append(log, fmt.Sprintf("marshal -> %q %v", mt, err))
				k.mtx.Lock()
				f1 := k.fails
				k.mtx.Unlock()
				if err != nil {
					if f1 == f0 {
						fail("marshal failed without put failure")
					}
					continue
				}
				fs2, err := (&Collection{ManifestText: mt}).FileSystem(nil, k)
				if err != nil {
					fail("reload failed " + err.Error())
				}
				for name, m := range model {
					f, err := fs2.Open(name)
					if err != nil {
						fail("reload open " + name + ": " + err.Error())
					}
					buf := make([]byte, len(m)+5)
					n, _ := io.ReadFull(f, buf)
					if !bytes.Equal(buf[:n], m) {
						fail(fmt.Sprintf("reload content %s got %q want %q", name, buf[:n], m))
					}
				}
			}
			for name, m := range model {
				fi, err := fs.Stat(name)
				if err != nil || fi.Size() != int64(len(m)) {
					fail(fmt.Sprintf("stat %s size mismatch %v want %d", name, fi, len(m)))
				}
			}
		}
		close(stopBg)
		for k.pending() > 0 {
			k.release(10, rnd)
		}
	}
	fmt.Println("fs random ok")
}
