From Coq Require Import List Arith Bool.
Import ListNotations.
Require Import Balance BalanceRun.

(* physical device of a mount: its DeviceID, or a private one when blank *)
Definition pdev (m : mnt) : nat := if dev m =? 0 then 1000 + mid m else dev m.

Definition holders (ms : list mnt) (repl : list (nat * nat)) : list mnt :=
  filter (fun m => existsb (fun r => fst r =? mid m) repl) ms.

(* replication of class c over distinct physical devices *)
Fixpoint dedup_repl (seen : list nat) (ms : list mnt) : nat :=
  match ms with
  | [] => 0
  | m :: r => if mem (pdev m) seen then dedup_repl seen r else mrepl m + dedup_repl (pdev m :: seen) r
  end.
Definition phys_repl (c : nat) (ms : list mnt) : nat := dedup_repl [] (filter (inclass c) ms).

Definition trashed_devs (ms : list mnt) (chs : list change) : list nat :=
  flat_map (fun ch => match ch with
                      | Trash m _ => map pdev (filter (fun x => mid x =? m) ms)
                      | _ => [] end) chs.

Definition t4_b (c : bcase) : bool :=
  let before := holders (c_mounts c) (c_repl c) in
  let gone := trashed_devs (c_mounts c) (c_changes c) in
  let after := filter (fun m => negb (mem (pdev m) gone)) before in
  forallb (fun cd => let '(cl, d) := cd in
             (d =? 0) || (Nat.min d (phys_repl cl before) <=? phys_repl cl after)) (c_classes c).

Definition shared (c : bcase) : bool :=
  existsb (fun m => existsb (fun m' => negb (mid m =? mid m') && (pdev m =? pdev m')) (c_mounts c)) (c_mounts c).
Definition multimount (c : bcase) : bool :=
  existsb (fun m => existsb (fun m' => negb (mid m =? mid m') && (msrv m =? msrv m')) (c_mounts c)) (c_mounts c).
Definition multiclass (c : bcase) : bool :=
  1 <? length (filter (fun cd => negb (snd cd =? 0)) (c_classes c)).
Definition nondefault (c : bcase) : bool :=
  existsb (fun m => negb (match mclasses m with [] => true | _ => false end)) (c_mounts c).

Definition tally (cs : list bcase) :=
  let bad := filter (fun c => negb (t4_b c)) cs in
  (length cs, length bad,
   length (filter (fun c => negb (shared c)) bad),
   length (filter (fun c => negb (shared c) && negb (multimount c)) bad),
   length (filter (fun c => negb (shared c) && negb (nondefault c)) bad)).
