From Coq Require Import List Arith Bool.
Import ListNotations.
Require Import Balance BalanceRun.


Definition holders (ms : list mnt) (repl : list (nat * nat)) : list mnt :=
  filter (fun m => existsb (fun r => fst r =? mid m) repl) ms.

(* replication of class c over distinct physical devices; a device mounted several times counts
   once, with the largest Replication any of its mounts in the class reports *)
Definition dev_repl (d : nat) (ms : list mnt) : nat :=
  fold_left Nat.max (map mrepl (filter (fun m => pdev m =? d) ms)) 0.
Fixpoint dedup_repl (seen : list nat) (all ms : list mnt) : nat :=
  match ms with
  | [] => 0
  | m :: r => if mem (pdev m) seen then dedup_repl seen all r
              else dev_repl (pdev m) all + dedup_repl (pdev m :: seen) all r
  end.
Definition phys_repl (c : nat) (ms : list mnt) : nat :=
  let cm := filter (inclass c) ms in dedup_repl [] cm cm.

Definition trashed_devs (ms : list mnt) (chs : list change) : list nat :=
  flat_map (fun ch => match ch with
                      | Trash m _ => map pdev (filter (fun x => mid x =? m) ms)
                      | _ => [] end) chs.

Definition t4_b (c : bcase) : bool :=
  let before := holders (c_mounts c) (c_repl c) in
  let gone := trashed_devs (c_mounts c) (c_changes c) in
  let after := filter (fun m => negb (mem (pdev m) gone)) before in
  forallb (fun cd => let '(cl, d) := cd in
             (d =? 0) || (Nat.min d (phys_repl cl before) <=? phys_repl cl after)) (c_classes c).

Definition shared (c : bcase) : bool :=
  existsb (fun m => existsb (fun m' => negb (mid m =? mid m') && (pdev m =? pdev m')) (c_mounts c)) (c_mounts c).
Definition multimount (c : bcase) : bool :=
  existsb (fun m => existsb (fun m' => negb (mid m =? mid m') && (msrv m =? msrv m')) (c_mounts c)) (c_mounts c).
Definition multiclass (c : bcase) : bool :=
  1 <? length (filter (fun cd => negb (snd cd =? 0)) (c_classes c)).
Definition nondefault (c : bcase) : bool :=
  existsb (fun m => negb (match mclasses m with [] => true | _ => false end)) (c_mounts c).

Definition tally (cs : list bcase) :=
  let bad := filter (fun c => negb (t4_b c)) cs in
  (length cs, length bad,
   length (filter (fun c => negb (shared c)) bad),
   length (filter (fun c => negb (shared c) && negb (multimount c)) bad),
   length (filter (fun c => negb (shared c) && negb (nondefault c)) bad)).

(* the same clause evaluated on a model's own output *)
Definition t4_of (chs : list change) (c : bcase) : bool :=
  t4_b {| c_mounts := c_mounts c; c_repl := c_repl c; c_classes := c_classes c; c_rank := c_rank c;
          c_devrank := c_devrank c; c_changes := chs; c_lost := c_lost c |}.
Definition run_cur (c : bcase) := fst (balance_block (fun s => nth s (c_rank c) 0) (fun d => nth d (c_devrank c) 0) 100 (c_mounts c) (c_repl c) (c_classes c)).
Definition run_fix (c : bcase) := fst (balance_block_fixed (fun s => nth s (c_rank c) 0) (fun d => nth d (c_devrank c) 0) 100 (c_mounts c) (c_repl c) (c_classes c)).
Definition ntrash (l : list change) := length (filter (fun ch => match ch with Trash _ _ => true | _ => false end) l).
Definition tally2 (cs : list bcase) :=
  (length cs,
   length (filter (fun c => negb (t4_of (run_cur c) c)) cs),
   length (filter (fun c => negb (t4_of (run_fix c) c)) cs),
   list_sum (map (fun c => ntrash (run_cur c)) cs),
   list_sum (map (fun c => ntrash (run_fix c)) cs)).
