From Coq Require Import List Arith Bool.
Import ListNotations.
Require Import Balance.

Definition mkm (i s d : nat) (ro : bool) (r : nat) (cls : list nat) : mnt :=
  {| mid := i; msrv := s; dev := d; mro := ro; mrepl := r; mclasses := cls |}.
Record bcase := mkc { c_mounts : list mnt; c_repl : list (nat * nat); c_classes : list (nat * nat);
                      c_rank : list nat; c_devrank : list nat; c_changes : list change; c_lost : bool }.

Definition ckey (c : change) : nat := match c with Trash m _ => 2 * m | Pull m _ => 2 * m + 1 end.
Fixpoint cins (x : change) (l : list change) : list change :=
  match l with [] => [x] | y :: r => if ckey x <=? ckey y then x :: l else y :: cins x r end.
Definition csort (l : list change) := fold_right cins [] l.
Definition ceq (a b : change) : bool :=
  match a, b with
  | Trash m t, Trash m' t' => (m =? m') && (t =? t')
  | Pull m f, Pull m' f' => (m =? m') && (f =? f')
  | _, _ => false end.
Fixpoint leq (a b : list change) : bool :=
  match a, b with [], [] => true | x :: r, y :: s => ceq x y && leq r s | _, _ => false end.

Definition run_case (c : bcase) : bool :=
  let '(chs, lost) := balance_block (fun s => nth s (c_rank c) 0) (fun d => nth d (c_devrank c) 0) 100
                                    (c_mounts c) (c_repl c) (c_classes c) in
  leq (csort chs) (c_changes c) && Bool.eqb lost (c_lost c).

Fixpoint bad_from (i : nat) (cs : list bcase) : list nat :=
  match cs with [] => [] | c :: r => if run_case c then bad_from (S i) r else i :: bad_from (S i) r end.
Definition bad_cases := bad_from 0.
