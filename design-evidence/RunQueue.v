(* Prototype: lib/dispatchcloud/scheduler/run_queue.go runQueue as a pure function *)
From Coq Require Import List Arith Bool.
Import ListNotations.

Inductive ev := EKill (u : nat) | ECreate (it : nat) | EStart (it u : nat) (ok : bool) | EUnlock (u : nat).
Definition ent := (nat * nat * nat * nat)%type.  (* uuid, state (0 Queued, 1 Locked, other), priority, instance type *)
Definition e_uuid (e : ent) := let '(u,_,_,_) := e in u.
Definition e_state (e : ent) := let '(_,s,_,_) := e in s.
Definition e_prio (e : ent) := let '(_,_,p,_) := e in p.
Definition e_it (e : ent) := let '(_,_,_,i) := e in i.

Definition mem (x : nat) (l : list nat) : bool := existsb (Nat.eqb x) l.
Definition upd (l : list nat) (i v : nat) : list nat := firstn i l ++ v :: skipn (S i) l.

(* sort by priority, descending (priorities distinct in exact-comparison cases) *)
Fixpoint ins (x : ent) (l : list ent) : list ent :=
  match l with [] => [x] | y :: r => if e_prio y <? e_prio x then x :: l else y :: ins x r end.
Definition psort (l : list ent) : list ent := fold_right ins [] l.

Record rstate := { unalloc : list nat; idle : list nat; dontstart : list nat;
                   log : list ev; locks : list nat }.

Section RQ.
Variable running : list nat.
Variable atQuota : bool.
Variable createOK : list bool.
Variable killable : list nat.

(* returns new state and Some tail when the loop breaks into over-quota handling *)
Fixpoint loop (l : list ent) (s : rstate) : rstate * option (list ent) :=
  match l with
  | [] => (s, None)
  | e :: r =>
    let u := e_uuid e in let it := e_it e in
    if mem u running || (e_prio e <? 1) then loop r s
    else match e_state e with
    | 0 => (* Queued *)
      if (nth it (unalloc s) 0 <? 1) && atQuota then (s, Some l)
      else
        let s1 := {| unalloc := unalloc s; idle := idle s; dontstart := dontstart s;
                     log := log s ++ [EKill u]; locks := locks s |} in
        if mem u killable then loop r s1
        else loop r {| unalloc := upd (unalloc s1) it (nth it (unalloc s1) 0 - 1);  (* Go int may go negative; see note *)
                       idle := idle s1; dontstart := dontstart s1; log := log s1; locks := u :: locks s1 |}
    | 1 => (* Locked *)
      let proceed (s : rstate) :=
          if mem it (dontstart s) then loop r s
          else
            let s1 := {| unalloc := unalloc s; idle := idle s; dontstart := dontstart s;
                         log := log s ++ [EKill u]; locks := locks s |} in
            if mem u killable then loop r s1
            else
              let ok := 0 <? nth it (idle s1) 0 in
              let s2 := {| unalloc := unalloc s1;
                           idle := if ok then upd (idle s1) it (nth it (idle s1) 0 - 1) else idle s1;
                           dontstart := if ok then dontstart s1 else it :: dontstart s1;
                           log := log s1 ++ [EStart it u ok]; locks := locks s1 |} in
              loop r s2 in
      if 0 <? nth it (unalloc s) 0 then
        proceed {| unalloc := upd (unalloc s) it (nth it (unalloc s) 0 - 1); idle := idle s;
                   dontstart := dontstart s; log := log s; locks := locks s |}
      else if atQuota then
        ({| unalloc := unalloc s; idle := idle s; dontstart := dontstart s;
            log := log s ++ [EUnlock u]; locks := locks s |}, Some l)
      else
        let s1 := {| unalloc := unalloc s; idle := idle s; dontstart := dontstart s;
                     log := log s ++ [ECreate it]; locks := locks s |} in
        if nth it createOK false then proceed s1 else loop r s1
    | _ => loop r s
    end
  end.
End RQ.

Definition run_queue (ents : list ent) (running unalloc0 : list nat) (atQuota : bool)
           (createOK : list bool) (idle0 killable : list nat) : list ev * list nat * list nat :=
  let sorted := psort ents in
  let s0 := {| unalloc := unalloc0; idle := idle0; dontstart := []; log := []; locks := [] |} in
  let '(s, oq) := loop running atQuota createOK killable sorted s0 in
  match oq with
  | None => (log s, locks s, [])
  | Some tail =>
    let unl := map (fun e => EUnlock (e_uuid e)) (filter (fun e => e_state e =? 1) tail) in
    let shut := filter (fun it => 1 <=? nth it (unalloc s) 0) (seq 0 (length (unalloc s))) in
    (log s ++ unl, locks s, shut)
  end.

Record rcase := mkr { r_ents : list ent; r_running : list nat; r_unalloc : list nat; r_quota : bool;
                      r_create : list bool; r_idle : list nat; r_kill : list nat;
                      r_log : list ev; r_locks : list nat; r_shut : list nat }.

Definition ev_eqb (a b : ev) : bool :=
  match a, b with
  | EKill u, EKill v => u =? v
  | ECreate i, ECreate j => i =? j
  | EStart i u o, EStart j v p => (i =? j) && (u =? v) && Bool.eqb o p
  | EUnlock u, EUnlock v => u =? v
  | _, _ => false end.
Fixpoint leq {A} (f : A -> A -> bool) (a b : list A) : bool :=
  match a, b with [], [] => true | x :: r, y :: s => f x y && leq f r s | _, _ => false end.
Fixpoint nins (x : nat) (l : list nat) := match l with [] => [x] | y :: r => if x <=? y then x :: l else y :: nins x r end.
Definition nsort (l : list nat) := fold_right nins [] l.

Definition run_case (c : rcase) : bool :=
  let '(lg, lk, sh) := run_queue (r_ents c) (r_running c) (r_unalloc c) (r_quota c) (r_create c) (r_idle c) (r_kill c) in
  leq ev_eqb lg (r_log c) && leq Nat.eqb (nsort lk) (nsort (r_locks c)) && leq Nat.eqb (nsort sh) (nsort (r_shut c)).
Fixpoint bad_from (i : nat) (cs : list rcase) : list nat :=
  match cs with [] => [] | c :: r => if run_case c then bad_from (S i) r else i :: bad_from (S i) r end.
Definition bad_cases := bad_from 0.
