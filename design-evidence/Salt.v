(* Prototype: sdk/go/auth/salt.go SaltToken *)
From Coq Require Import List String Ascii NArith Bool Arith Lia.
Import ListNotations.
Require Import Sha1.
Local Open Scope string_scope.
Local Open Scope nat_scope.

Fixpoint split_on (sep : ascii) (s : string) : list string :=
  match s with
  | EmptyString => [EmptyString]
  | String c r =>
    if Ascii.eqb c sep then EmptyString :: split_on sep r
    else match split_on sep r with
         | x :: xs => String c x :: xs
         | [] => [String c EmptyString]
         end
  end.

Definition is_obsolete_char (c : ascii) : bool :=
  let n := nat_of_ascii c in ((48 <=? n) && (n <=? 57)) || ((97 <=? n) && (n <=? 122)).
Fixpoint all_chars (f : ascii -> bool) (s : string) : bool :=
  match s with EmptyString => true | String c r => f c && all_chars f r end.
Definition is_obsolete (s : string) : bool := (41 <=? String.length s) && all_chars is_obsolete_char s.

Inductive salt_result := Salted (t : string) | ErrObsolete | ErrFormat | ErrSalted.

Definition hmac_hex (key msg : string) : string := hex (hmac_sha1 (bytes_of_string key) (bytes_of_string msg)).

Definition salt_token (token remote : string) : salt_result :=
  match split_on "/" token with
  | v :: uuid :: secret :: _ =>
    if negb (String.eqb v "v2") then (if is_obsolete token then ErrObsolete else ErrFormat)
    else if negb (String.length secret =? 40) then Salted ("v2/" ++ uuid ++ "/" ++ hmac_hex secret remote)
    else if String.prefix remote uuid then Salted token
    else ErrSalted
  | _ => if is_obsolete token then ErrObsolete else ErrFormat
  end.

Eval vm_compute in salt_token "v2/aaaaa-gj3su-000000000000000/thisisthesecretpartofthetokenwhichislongerthan40chars" "bbbbb".
Eval vm_compute in salt_token "v2/zzzzz-gj3su-000000000000000/0123456789abcdefghijklmnopqrstuvwxyzabcd" "aaaaa".
Eval vm_compute in salt_token "abcdefghijklmnopqrstuvwxyz0123456789abcdefghij" "aaaaa".
Eval vm_compute in salt_token "opaque/token" "aaaaa".

(* structural facts *)
Lemma hex_length l : String.length (hex l) = 2 * List.length l.
Proof. induction l as [|b l IH]; cbn [hex String.length List.length]; [reflexivity|]. rewrite IH. lia. Qed.

(* shape of a salted token: uuid kept, 40 hex characters of HMAC-SHA1(secret, remote) *)
Theorem salt_shape token remote v uuid secret rest :
  split_on "/" token = v :: uuid :: secret :: rest -> v = "v2" -> String.length secret <> 40 ->
  salt_token token remote = Salted ("v2/" ++ uuid ++ "/" ++ hmac_hex secret remote).
Proof.
  intros Hs -> Hl. unfold salt_token. rewrite Hs. cbn [String.eqb Ascii.eqb Bool.eqb negb].
  destruct (String.length secret =? 40) eqn:E; [apply Nat.eqb_eq in E; contradiction|]. reflexivity.
Qed.

(* a token with a 40-character third field is never re-salted (this is where F6a lives:
   the code tests the length only, not that the field is hexadecimal) *)
Theorem never_double_salted token remote v uuid secret rest :
  split_on "/" token = v :: uuid :: secret :: rest -> v = "v2" -> String.length secret = 40 ->
  salt_token token remote = (if String.prefix remote uuid then Salted token else ErrSalted).
Proof.
  intros Hs -> Hl. unfold salt_token. rewrite Hs. cbn [String.eqb Ascii.eqb Bool.eqb negb].
  rewrite Hl. reflexivity.
Qed.
