(* Prototype: services/keep-balance/balance.go balanceBlock as a Gallina model *)
From Coq Require Import List Arith Bool.
Import ListNotations.

Record mnt := { mid : nat; msrv : nat; dev : nat (* 0 = "" *); mro : bool; mrepl : nat; mclasses : list nat }.
Record slot := { smnt : mnt; srepl : option nat (* mtime of replica here *); swant : bool }.

Definition mem (x : nat) (l : list nat) : bool := existsb (Nat.eqb x) l.
Definition add (x : nat) (l : list nat) : list nat := if mem x l then l else x :: l.

(* class 0 is "default": a mount with no classes belongs to class 0 only *)
Definition inclass (c : nat) (m : mnt) : bool :=
  match mclasses m with [] => c =? 0 | cs => mem c cs end.

Section Block.
Variable rank : nat -> nat.        (* rendezvous position of a service for this block *)
Variable devrank : nat -> nat.     (* order of md5(blkid ++ deviceID) *)
Variable minMtime : nat.

Definition has (s : slot) : bool := match srepl s with Some _ => true | None => false end.

Definition less (c : nat) (a b : slot) : bool :=
  let ca := inclass c (smnt a) in let cb := inclass c (smnt b) in
  if negb (Bool.eqb ca cb) then ca
  else if negb (Bool.eqb (swant a) (swant b)) then swant a
  else if negb (rank (msrv (smnt a)) =? rank (msrv (smnt b))) then rank (msrv (smnt a)) <? rank (msrv (smnt b))
  else if negb (Bool.eqb (has a) (has b)) then has a
  else devrank (dev (smnt a)) <? devrank (dev (smnt b)).

Fixpoint insert (c : nat) (x : slot) (l : list slot) : list slot :=
  match l with
  | [] => [x]
  | y :: r => if less c y x then y :: insert c x r else if less c x y then x :: l else y :: insert c x r
  end.
(* stable insertion sort: x goes after elements that are not greater *)
Fixpoint isort (c : nat) (l : list slot) : list slot :=
  match l with [] => [] | x :: r => insert c x (isort c r) end.

Record acc := {
  slots : list slot; wantSrv : list nat; wantMnt : list nat; wantDev : list nat;
  protMnt : list nat; replWant : nat; replProt : nat; unsafe : list nat }.

Definition set_want (l : list slot) (i : nat) : list slot :=
  firstn i l ++ match nth_error l i with
                | Some s => [{| smnt := smnt s; srepl := srepl s; swant := true |}]
                | None => [] end ++ skipn (S i) l.

Definition dslot := {| smnt := {| mid := 0; msrv := 0; dev := 0; mro := false; mrepl := 0; mclasses := [] |}; srepl := None; swant := false |}.

(* trySlot(i): returns new accumulator and "done" *)
Definition try_slot (desired : nat) (a : acc) (i : nat) : acc * bool :=
  let s := nth i (slots a) dslot in
  let m := smnt s in
  if mem (mid m) (wantMnt a) || ((negb (dev m =? 0)) && mem (dev m) (wantDev a)) then (a, false)
  else
    let a1 :=
      match srepl s with
      | Some mt =>
        if (replProt a <? desired) && negb (mem (mid m) (protMnt a)) then
          {| slots := slots a; wantSrv := wantSrv a; wantMnt := wantMnt a; wantDev := wantDev a;
             protMnt := add (mid m) (protMnt a); replWant := replWant a;
             replProt := replProt a + mrepl m; unsafe := add mt (unsafe a) |}
        else a
      | None => a
      end in
    let a2 :=
      if (replWant a1 <? desired) && (has s || negb (mro m)) then
        {| slots := set_want (slots a1) i; wantSrv := add (msrv m) (wantSrv a1);
           wantMnt := add (mid m) (wantMnt a1);
           wantDev := if dev m =? 0 then wantDev a1 else add (dev m) (wantDev a1);
           protMnt := protMnt a1; replWant := replWant a1 + mrepl m;
           replProt := replProt a1; unsafe := unsafe a1 |}
      else a1 in
    (a2, (desired <=? replProt a2) && (desired <=? replWant a2)).

Fixpoint pass (distinct : bool) (desired : nat) (idxs : list nat) (a : acc) (done : bool) : acc * bool :=
  match idxs with
  | [] => (a, done)
  | i :: r =>
    if done then (a, done)
    else
      let s := nth i (slots a) dslot in
      if distinct && mem (msrv (smnt s)) (wantSrv a) then pass distinct desired r a done
      else let '(a', d) := try_slot desired a i in pass distinct desired r a' d
  end.

Fixpoint safe_count (c desired : nat) (l : list slot) (safe : nat) : nat :=
  match l with
  | [] => safe
  | s :: r =>
    if negb (has s) || negb (inclass c (smnt s)) then safe_count c desired r safe
    else let safe' := safe + mrepl (smnt s) in
         if desired <=? safe' then safe' else safe_count c desired r safe'
  end.

Definition protect_wanted_devs (a : acc) : list nat :=
  fold_left (fun u s => match srepl s with
                        | Some mt => if (negb (dev (smnt s) =? 0)) && mem (dev (smnt s)) (wantDev a) then add mt u else u
                        | None => u end) (slots a) (unsafe a).

(* one storage class *)
Definition do_class (c desired : nat) (st : list slot * list nat * bool) : list slot * list nat * bool :=
  let '(sl, uns, under) := st in
  if desired =? 0 then st else
  let sorted := isort c sl in
  let a0 := {| slots := sorted; wantSrv := []; wantMnt := []; wantDev := []; protMnt := [];
               replWant := 0; replProt := 0; unsafe := uns |} in
  let idxs := seq 0 (length sorted) in
  let '(a1, d1) := pass true desired idxs a0 false in
  let '(a2, _) := pass false desired idxs a1 d1 in
  let under' := if under then true else safe_count c desired (slots a2) 0 <? desired in
  (slots a2, protect_wanted_devs a2, under').

(* ---- proposed repair (design study): protect the class's member replicas first, counted per
   physical device; count `safe` per device; replicas on protected or wanted devices are unsafe ---- *)
Definition pdev (m : mnt) : nat := if dev m =? 0 then 1000 + mid m else dev m.

(* protection pass over the sorted slots: returns (unsafe mtimes, protected devices) *)
Fixpoint protect (c desired : nat) (l : list slot) (prot : nat) (uns pd : list nat) : list nat * list nat :=
  match l with
  | [] => (uns, pd)
  | s :: r =>
    match srepl s with
    | Some mt =>
      if inclass c (smnt s) && (prot <? desired) && negb (mem (pdev (smnt s)) pd)
      then protect c desired r (prot + mrepl (smnt s)) (add mt uns) (pdev (smnt s) :: pd)
      else protect c desired r prot uns pd
    | None => protect c desired r prot uns pd
    end
  end.

Fixpoint safe_dev (c : nat) (l : list slot) (seen : list nat) : nat :=
  match l with
  | [] => 0
  | s :: r =>
    if has s && inclass c (smnt s) && negb (mem (pdev (smnt s)) seen)
    then mrepl (smnt s) + safe_dev c r (pdev (smnt s) :: seen)
    else safe_dev c r seen
  end.

Definition protect_devs (a : acc) (pd : list nat) (uns : list nat) : list nat :=
  fold_left (fun u s => match srepl s with
                        | Some mt => if mem (pdev (smnt s)) pd ||
                                        ((negb (dev (smnt s) =? 0)) && mem (dev (smnt s)) (wantDev a))
                                     then add mt u else u
                        | None => u end) (slots a) uns.

Definition do_class_fixed (c desired : nat) (st : list slot * list nat * bool) : list slot * list nat * bool :=
  let '(sl, uns, under) := st in
  if desired =? 0 then st else
  let sorted := isort c sl in
  let '(uns1, pd) := protect c desired sorted 0 uns [] in
  let a0 := {| slots := sorted; wantSrv := []; wantMnt := []; wantDev := []; protMnt := [];
               replWant := 0; replProt := desired (* protection already done: disable it in try_slot *);
               unsafe := uns1 |} in
  let idxs := seq 0 (length sorted) in
  let '(a1, d1) := pass true desired idxs a0 false in
  let '(a2, _) := pass false desired idxs a1 d1 in
  let under' := if under then true else safe_dev c (slots a2) [] <? desired in
  (slots a2, protect_devs a2 pd (unsafe a2), under').

Inductive change := Trash (m : nat) (mt : nat) | Pull (m : nat) (from : nat).

Definition balance_block (mounts : list mnt) (replicas : list (nat * nat)) (classes : list (nat * nat))
  : list change * bool :=
  let find_repl m := fold_left (fun acc r => if fst r =? mid m then Some (snd r) else acc) replicas None in
  let sl0 := map (fun m => let r := find_repl m in
                           {| smnt := m; srepl := r;
                              swant := match r with Some _ => mro m | None => false end |}) mounts in
  let '(sl, uns, under) := fold_left (fun st cd => do_class (fst cd) (snd cd) st) classes (sl0, [], false) in
  let sl := map (fun s => match srepl s with
                          | Some mt => if under || mem mt uns
                                       then {| smnt := smnt s; srepl := srepl s; swant := true |} else s
                          | None => s end) sl in
  let norepl := match replicas with [] => true | _ => false end in
  let from := match replicas with (m0, _) :: _ =>
                 match find (fun m => mid m =? m0) mounts with Some m => msrv m | None => 0 end
               | [] => 0 end in
  let changes := flat_map (fun s =>
      match srepl s with
      | Some mt => if negb (swant s) && (mt <? minMtime) then [Trash (mid (smnt s)) mt] else []
      | None => if swant s && negb norepl && negb (mro (smnt s)) then [Pull (mid (smnt s)) from] else []
      end) sl in
  let lost := existsb (fun s => negb (has s) && swant s && norepl) sl in
  (changes, lost).
Definition balance_block_fixed (mounts : list mnt) (replicas : list (nat * nat)) (classes : list (nat * nat))
  : list change * bool :=
  let find_repl m := fold_left (fun acc r => if fst r =? mid m then Some (snd r) else acc) replicas None in
  let sl0 := map (fun m => let r := find_repl m in
                           {| smnt := m; srepl := r;
                              swant := match r with Some _ => mro m | None => false end |}) mounts in
  let '(sl, uns, under) := fold_left (fun st cd => do_class_fixed (fst cd) (snd cd) st) classes (sl0, [], false) in
  let sl := map (fun s => match srepl s with
                          | Some mt => if under || mem mt uns
                                       then {| smnt := smnt s; srepl := srepl s; swant := true |} else s
                          | None => s end) sl in
  let norepl := match replicas with [] => true | _ => false end in
  let from := match replicas with (m0, _) :: _ =>
                 match find (fun m => mid m =? m0) mounts with Some m => msrv m | None => 0 end
               | [] => 0 end in
  let changes := flat_map (fun s =>
      match srepl s with
      | Some mt => if negb (swant s) && (mt <? minMtime) then [Trash (mid (smnt s)) mt] else []
      | None => if swant s && negb norepl && negb (mro (smnt s)) then [Pull (mid (smnt s)) from] else []
      end) sl in
  let lost := existsb (fun s => negb (has s) && swant s && norepl) sl in
  (changes, lost).
End Block.
