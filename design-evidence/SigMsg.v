(* Prototype: C07 the signed message hash@token@expiry@ttl is an injective encoding of its four
   fields when the hash has fixed length and expiry/ttl contain no '@' (tokens may contain '@'). *)
From Coq Require Import List Arith Lia.
Import ListNotations.

Section Msg.
Variable A : Type.
Variable at_ : A.                       (* the separator '@' *)

Definition msg (h t e l : list A) : list A := h ++ [at_] ++ t ++ [at_] ++ e ++ [at_] ++ l.

Lemma app_inj_length (a b c d : list A) : length a = length c -> a ++ b = c ++ d -> a = c /\ b = d.
Proof.
  revert c. induction a as [|x a IH]; intros c Hl He; destruct c as [|y c]; cbn [length] in Hl; try lia.
  - auto.
  - cbn [app] in He. injection He as -> He. destruct (IH c ltac:(lia) He) as [-> ->]. auto.
Qed.

(* splitting at the last separator: the tail has no separator *)
Lemma last_sep_inj (s s' l l' : list A) :
  ~ In at_ l -> ~ In at_ l' -> s ++ [at_] ++ l = s' ++ [at_] ++ l' -> s = s' /\ l = l'.
Proof.
  intros Hl Hl' He.
  assert (Hrev : rev l ++ [at_] ++ rev s = rev l' ++ [at_] ++ rev s').
  { apply (f_equal (@rev A)) in He. rewrite !rev_app_distr in He. cbn [rev app] in He.
    rewrite <- !app_assoc in He. exact He. }
  assert (Hn : forall a b c d : list A, ~ In at_ a -> ~ In at_ c -> a ++ [at_] ++ b = c ++ [at_] ++ d -> a = c /\ b = d).
  { induction a as [|x a IH]; intros b c d Ha Hc H.
    - destruct c as [|y c]; cbn [app] in H.
      + injection H as ->. auto.
      + injection H as Hy _. exfalso. apply Hc. left. symmetry; exact Hy.
    - destruct c as [|y c]; cbn [app] in H.
      + injection H as Hx _. exfalso. apply Ha. left. exact Hx.
      + injection H as -> H. destruct (IH b c d) as [-> ->]; auto.
        * intro X; apply Ha; right; exact X.
        * intro X; apply Hc; right; exact X. }
  destruct (Hn (rev l) (rev s) (rev l') (rev s')) as [E1 E2]; auto.
  - intro X. apply Hl. apply in_rev. exact X.
  - intro X. apply Hl'. apply in_rev. exact X.
  - split.
    + rewrite <- (rev_involutive s), <- (rev_involutive s'). f_equal. exact E2.
    + rewrite <- (rev_involutive l), <- (rev_involutive l'). f_equal. exact E1.
Qed.

Theorem msg_injective h t e l h' t' e' l' :
  length h = length h' ->
  ~ In at_ e -> ~ In at_ l -> ~ In at_ e' -> ~ In at_ l' ->
  msg h t e l = msg h' t' e' l' -> h = h' /\ t = t' /\ e = e' /\ l = l'.
Proof.
  intros Hh He Hl He' Hl' Hm. unfold msg in Hm.
  destruct (app_inj_length _ _ _ _ Hh Hm) as [-> Hm1]. cbn [app] in Hm1. injection Hm1 as Hm1.
  (* t ++ @ ++ e ++ @ ++ l : peel l, then e *)
  assert (H1 : (t ++ [at_] ++ e) ++ [at_] ++ l = (t' ++ [at_] ++ e') ++ [at_] ++ l').
  { rewrite <- !app_assoc. cbn [app]. exact Hm1. }
  destruct (last_sep_inj _ _ _ _ Hl Hl' H1) as [H2 ->].
  destruct (last_sep_inj _ _ _ _ He He' H2) as [-> ->]. auto.
Qed.
End Msg.
Print Assumptions msg_injective.
