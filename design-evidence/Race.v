(* Prototype: C04 interleaving level.  Touch || Trash and WriteBlock || Trash over one block file,
   as small-step programs with a per-file flock; all interleavings enumerated by a function whose
   completeness w.r.t. the step relation is proved, then decided by computation. *)
From Coq Require Import List Bool Arith Lia.
Import ListNotations.

Inductive age := Old | Fresh.                    (* mtime older than TTL / within TTL *)
Inductive content := Good | Corrupt.
Record file := { fage : age; fcont : content }.

Inductive pc_touch := T0 | T1 | T2 | T3 | TDone (ok : bool).     (* open; flock; utimes; unlock *)
Inductive pc_trash := D0 | D1 | D2 (seen : age) | D3 | DDone.     (* open; flock; stat; rename; unlock *)
Inductive pc_write := W0 | W1 | WDone.                            (* write temp file; rename over block *)

Record st := {
  blk : option file;            (* the block path *)
  intrash : option file;        (* what was moved to <hash>.trash.<deadline> *)
  lock : option nat;            (* flock holder: 0 = touch, 1 = trash *)
  tpc : pc_touch; dpc : pc_trash; wpc : pc_write }.

(* one step of each thread; None = not enabled (finished, or blocked on flock) *)
Definition step_touch (s : st) : option st :=
  match tpc s with
  | T0 => Some match blk s with
               | Some _ => {| blk := blk s; intrash := intrash s; lock := lock s; tpc := T1; dpc := dpc s; wpc := wpc s |}
               | None => {| blk := blk s; intrash := intrash s; lock := lock s; tpc := TDone false; dpc := dpc s; wpc := wpc s |}
               end
  | T1 => match lock s with
          | None => Some {| blk := blk s; intrash := intrash s; lock := Some 0; tpc := T2; dpc := dpc s; wpc := wpc s |}
          | Some _ => None
          end
  | T2 => Some match blk s with           (* os.Chtimes by path *)
               | Some f => {| blk := Some {| fage := Fresh; fcont := fcont f |}; intrash := intrash s; lock := lock s; tpc := T3; dpc := dpc s; wpc := wpc s |}
               | None => {| blk := None; intrash := intrash s; lock := None; tpc := TDone false; dpc := dpc s; wpc := wpc s |}
               end
  | T3 => Some {| blk := blk s; intrash := intrash s; lock := None; tpc := TDone true; dpc := dpc s; wpc := wpc s |}
  | TDone _ => None
  end.

Definition step_trash (s : st) : option st :=
  match dpc s with
  | D0 => Some match blk s with
               | Some _ => {| blk := blk s; intrash := intrash s; lock := lock s; tpc := tpc s; dpc := D1; wpc := wpc s |}
               | None => {| blk := blk s; intrash := intrash s; lock := lock s; tpc := tpc s; dpc := DDone; wpc := wpc s |}
               end
  | D1 => match lock s with
          | None => Some {| blk := blk s; intrash := intrash s; lock := Some 1; tpc := tpc s; dpc := D2 Old; wpc := wpc s |}
          | Some _ => None
          end
  | D2 _ => Some match blk s with         (* os.Stat by path, under the flock *)
                 | Some f => match fage f with
                             | Fresh => {| blk := blk s; intrash := intrash s; lock := None; tpc := tpc s; dpc := DDone; wpc := wpc s |}
                             | Old => {| blk := blk s; intrash := intrash s; lock := lock s; tpc := tpc s; dpc := D3; wpc := wpc s |}
                             end
                 | None => {| blk := blk s; intrash := intrash s; lock := None; tpc := tpc s; dpc := DDone; wpc := wpc s |}
                 end
  | D3 => Some {| blk := None; intrash := blk s; lock := None; tpc := tpc s; dpc := DDone; wpc := wpc s |}   (* os.Rename by path *)
  | DDone => None
  end.

(* WriteBlock takes no flock: temp file, then rename over the block path *)
Definition step_write (s : st) : option st :=
  match wpc s with
  | W0 => Some {| blk := blk s; intrash := intrash s; lock := lock s; tpc := tpc s; dpc := dpc s; wpc := W1 |}
  | W1 => Some {| blk := Some {| fage := Fresh; fcont := Good |}; intrash := intrash s; lock := lock s; tpc := tpc s; dpc := dpc s; wpc := WDone |}
  | WDone => None
  end.

Definition succs (s : st) : list st :=
  (match step_touch s with Some x => [x] | None => [] end) ++
  (match step_trash s with Some x => [x] | None => [] end) ++
  (match step_write s with Some x => [x] | None => [] end).

Inductive step : st -> st -> Prop := step_intro s s' : In s' (succs s) -> step s s'.
Inductive run : nat -> st -> st -> Prop :=
| run_0 s : run 0 s s
| run_S n s s' s'' : step s s' -> run n s' s'' -> run (S n) s s''.

Fixpoint finals (fuel : nat) (s : st) : list st :=
  match fuel with
  | 0 => [s]
  | S f => match succs s with [] => [s] | l => flat_map (finals f) l end
  end.

(* completeness of the enumeration: every maximal run of length <= fuel ends in the list *)
Lemma finals_complete fuel : forall n s s', n <= fuel -> run n s s' -> succs s' = [] -> In s' (finals fuel s).
Proof.
  induction fuel as [|f IH]; intros n s s' Hn Hr Hend.
  - assert (n = 0) by lia. subst. inversion Hr; subst. left; reflexivity.
  - cbn [finals]. inversion Hr as [|m a b c Hs Hr']; subst.
    + rewrite Hend. left; reflexivity.
    + inversion Hs as [x y Hin]; subst. destruct (succs s) as [|z zs] eqn:E; [contradiction|].
      apply in_flat_map. exists b. split; [exact Hin|]. eapply IH; [|exact Hr'|exact Hend]. lia.
Qed.

(* ---- Touch || Trash on an existing old block: Touch fails, or the block is not trashed ---- *)
Definition init_tt (c : content) : st :=
  {| blk := Some {| fage := Old; fcont := c |}; intrash := None; lock := None; tpc := T0; dpc := D0; wpc := WDone |}.
Definition touch_ok (s : st) : bool := match tpc s with TDone true => true | _ => false end.
Definition present (s : st) : bool := match blk s with Some _ => true | None => false end.
Definition contract_touch (s : st) : bool := negb (touch_ok s) || present s.

Theorem touch_trash_race : forall c n s,
  n <= 9 -> run n (init_tt c) s -> succs s = [] -> contract_touch s = true.
Proof.
  intros c n s Hn Hr Hend.
  assert (H : forallb contract_touch (finals 9 (init_tt c)) = true) by (destruct c; vm_compute; reflexivity).
  rewrite forallb_forall in H. apply H. eapply finals_complete; eauto.
Qed.

(* ---- PutBlock(WriteBlock) || Trash with a corrupt old copy in place: the freshly written,
        acknowledged block can end up in the trash (F7) ---- *)
Definition init_wt : st :=
  {| blk := Some {| fage := Old; fcont := Corrupt |}; intrash := None; lock := None; tpc := TDone false; dpc := D0; wpc := W0 |}.
Definition put_acked_but_gone (s : st) : bool :=
  match wpc s, blk s, intrash s with
  | WDone, None, Some {| fage := Fresh; fcont := Good |} => true
  | _, _, _ => false
  end.
Theorem put_trash_race_corrupt_refuted :
  exists s, In s (finals 7 init_wt) /\ put_acked_but_gone s = true.
Proof.
  assert (H : existsb put_acked_but_gone (finals 7 init_wt) = true) by (vm_compute; reflexivity).
  apply existsb_exists in H. exact H.
Qed.
(* soundness of the enumeration for the refutation: every listed state is reachable *)
Lemma finals_sound fuel : forall s s', In s' (finals fuel s) -> exists n, run n s s'.
Proof.
  induction fuel as [|f IH]; intros s s' H; cbn [finals] in H.
  - destruct H as [<-|[]]. exists 0. constructor.
  - destruct (succs s) as [|z zs] eqn:E.
    + destruct H as [<-|[]]. exists 0. constructor.
    + apply in_flat_map in H. destruct H as (x & Hx & Hin). destruct (IH _ _ Hin) as [n Hn].
      exists (S n). econstructor; [constructor; rewrite E; exact Hx|exact Hn].
Qed.
Print Assumptions touch_trash_race.
Print Assumptions put_trash_race_corrupt_refuted.
