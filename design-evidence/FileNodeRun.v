From Coq Require Import List Arith Bool.
Import ListNotations.
Require Import FileNode.

Inductive op :=
| OSeek (h pos : nat)
| OWrite (h : nat) (data : list byte)
| ORead (h n : nat) (expect : list byte) (eof : bool)
| OTrunc (sz : nat)
| OSize (sz : nat)
| OSegs (lens : list nat).

Definition beq_list (a b : list nat) : bool := if list_eq_dec Nat.eq_dec a b then true else false.

Definition hseek (p : ptr) (pos : nat) : ptr :=
  if pos =? off p then p else {| off := pos; idx := idx p; soff := soff p; rep := None |}.

(* state: node, handle0 ptr, handle1 ptr ; returns false on first disagreement *)
Fixpoint run (mb : nat) (fn : fnode) (p0 p1 : ptr) (ops : list op) : bool :=
  match ops with
  | [] => true
  | o :: r =>
    match o with
    | OSeek h pos => if h =? 0 then run mb fn (hseek p0 pos) p1 r else run mb fn p0 (hseek p1 pos) r
    | OWrite h data =>
      if h =? 0 then let '(fn', p') := fn_write mb fn p0 data in run mb fn' p' p1 r
      else let '(fn', p') := fn_write mb fn p1 data in run mb fn' p0 p' r
    | ORead h n ex eof =>
      let '(d, p', e) := fn_read fn n (if h =? 0 then p0 else p1) in
      if beq_list d ex && Bool.eqb e eof
      then (if h =? 0 then run mb fn p' p1 r else run mb fn p0 p' r) else false
    | OTrunc sz => run mb (fn_truncate mb fn sz) p0 p1 r
    | OSize sz => if (size fn =? sz) && (length (content fn) =? sz) then run mb fn p0 p1 r else false
    | OSegs lens => if beq_list (map slen (segs fn)) lens then run mb fn p0 p1 r else false
    end
  end.

Definition pinit := {| off := 0; idx := 0; soff := 0; rep := Some 0 |}.
Fixpoint bad_from (i : nat) (cs : list (nat * list op)) : list nat :=
  match cs with
  | [] => []
  | (mb, ops) :: r => if run mb empty pinit pinit ops then bad_from (S i) r else i :: bad_from (S i) r
  end.
Definition bad_cases := bad_from 0.

(* debugging: index of first failing op and what the model produced *)
Fixpoint dbg (mb : nat) (fn : fnode) (p0 p1 : ptr) (ops : list op) (i : nat) : option (nat * list byte * bool * fnode * ptr * ptr) :=
  match ops with
  | [] => None
  | o :: r =>
    match o with
    | OSeek h pos => if h =? 0 then dbg mb fn (hseek p0 pos) p1 r (S i) else dbg mb fn p0 (hseek p1 pos) r (S i)
    | OWrite h data =>
      if h =? 0 then let '(fn', p') := fn_write mb fn p0 data in dbg mb fn' p' p1 r (S i)
      else let '(fn', p') := fn_write mb fn p1 data in dbg mb fn' p0 p' r (S i)
    | ORead h n ex eof =>
      let '(d, p', e) := fn_read fn n (if h =? 0 then p0 else p1) in
      if beq_list d ex && Bool.eqb e eof
      then (if h =? 0 then dbg mb fn p' p1 r (S i) else dbg mb fn p0 p' r (S i)) else Some (i, d, e, fn, p0, p1)
    | OTrunc sz => dbg mb (fn_truncate mb fn sz) p0 p1 r (S i)
    | OSize sz => if (size fn =? sz) && (length (content fn) =? sz) then dbg mb fn p0 p1 r (S i) else Some (i, content fn, false, fn, p0, p1)
    | OSegs lens => if beq_list (map slen (segs fn)) lens then dbg mb fn p0 p1 r (S i) else Some (i, lens, false, fn, p0, p1)
    end
  end.
