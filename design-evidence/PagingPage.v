(* Discharge the four hypotheses of Paging.v for the concrete sort-filter-take page function *)
From Coq Require Import List Arith Lia Bool Sorted Permutation.
Import ListNotations.
Require Import Paging.

Fixpoint insert (x : row) (l : list row) : list row :=
  match l with
  | [] => [x]
  | y :: r => if key_ltb x y then x :: l else y :: insert x r
  end.
Definition isort (l : list row) : list row := fold_right insert [] l.

Definition page (db : list row) (f : flt) (n : nat) : list row :=
  firstn n (isort (filter (matches f) db)).

Lemma key_ltb_spec a b : key_ltb a b = true <-> key_lt a b.
Proof.
  unfold key_ltb, key_lt. rewrite orb_true_iff, andb_true_iff, !Nat.ltb_lt, Nat.eqb_eq. tauto.
Qed.

Lemma insert_in x y l : In y (insert x l) <-> y = x \/ In y l.
Proof.
  induction l as [|z l IH]; simpl; [intuition|].
  destruct (key_ltb x z); simpl; [intuition|]. rewrite IH. intuition.
Qed.
Lemma isort_in y l : In y (isort l) <-> In y l.
Proof.
  induction l as [|x l IH]; simpl; [tauto|]. rewrite insert_in, IH. intuition.
Qed.

Lemma insert_sorted x l :
  (forall y, In y l -> uuid y <> uuid x) ->
  StronglySorted key_lt l -> StronglySorted key_lt (insert x l).
Proof.
  induction l as [|z l IH]; intros Hne Hs; simpl.
  - constructor; [constructor|constructor].
  - inversion Hs as [|? ? Hs' Hall]; subst.
    destruct (key_ltb x z) eqn:E.
    + apply key_ltb_spec in E. constructor; [exact Hs|].
      constructor; [exact E|]. rewrite Forall_forall in *. intros y Hy.
      eapply key_lt_trans; [exact E|]. apply Hall; exact Hy.
    + constructor.
      * apply IH; auto. intros y Hy. apply Hne. right; exact Hy.
      * rewrite Forall_forall in *. intros y Hy. apply -> insert_in in Hy.
        destruct Hy as [->|Hy]; [|apply Hall; exact Hy].
        assert (Hzx : uuid z <> uuid x) by (apply Hne; left; reflexivity).
        destruct (key_tricho z x Hzx) as [H|H]; [exact H|].
        apply key_ltb_spec in H. congruence.
Qed.

Lemma isort_sorted l : NoDup (map uuid l) -> StronglySorted key_lt (isort l).
Proof.
  induction l as [|x l IH]; intros Hnd; simpl; [constructor|].
  inversion Hnd as [|? ? Hnin Hnd']; subst.
  apply insert_sorted; auto.
  intros y Hy E. apply -> isort_in in Hy. apply Hnin. rewrite <- E. apply in_map; exact Hy.
Qed.

Lemma nodup_filter_uuid (p : row -> bool) l : NoDup (map uuid l) -> NoDup (map uuid (filter p l)).
Proof.
  induction l as [|a l IH]; simpl; intros H; [constructor|].
  inversion H as [|? ? Hnin Hnd]; subst. destruct (p a); simpl; auto.
  constructor; auto. intro X. apply Hnin. apply in_map_iff in X. destruct X as (r & E & Hr).
  apply filter_In in Hr. destruct Hr as [Hr _]. apply in_map_iff. exists r; auto.
Qed.

Lemma sorted_firstn n l : StronglySorted key_lt l -> StronglySorted key_lt (firstn n l).
Proof.
  revert n. induction l as [|a l IH]; intros n Hs; destruct n; simpl; try constructor.
  - inversion Hs; subst. apply IH; auto.
  - inversion Hs as [|? ? _ Hall]; subst. rewrite Forall_forall in *. intros y Hy.
    apply Hall. rewrite <- (firstn_skipn n l). apply in_or_app; left; exact Hy.
Qed.

(* in a strictly sorted list, firstn is downward closed *)
Lemma firstn_closed n l r r' :
  StronglySorted key_lt l -> In r l -> In r' (firstn n l) -> key_lt r r' -> In r (firstn n l).
Proof.
  revert n. induction l as [|a l IH]; intros n Hs Hr Hr' Hlt; destruct n; simpl in *; try contradiction.
  inversion Hs as [|? ? Hs' Hall]; subst. rewrite Forall_forall in Hall.
  destruct Hr as [->|Hr]; [left; reflexivity|].
  destruct Hr' as [->|Hr'].
  - exfalso. eapply key_lt_irrefl. eapply key_lt_trans; [exact Hlt|]. apply Hall; exact Hr.
  - right. eapply IH; eauto.
Qed.

Theorem page_in_ok db f n r : In r (page db f n) -> In r db /\ matches f r = true.
Proof.
  unfold page. intros H.
  assert (In r (isort (filter (matches f) db))).
  { rewrite <- (firstn_skipn n (isort _)). apply in_or_app; left; exact H. }
  apply -> isort_in in H0. apply filter_In in H0. exact H0.
Qed.
Theorem page_sorted_ok db f n : NoDup (map uuid db) -> StronglySorted key_lt (page db f n).
Proof.
  intros H. unfold page. apply sorted_firstn. apply isort_sorted. apply nodup_filter_uuid; exact H.
Qed.
Theorem page_nonempty_ok db f n r : 1 <= n -> In r db -> matches f r = true -> page db f n <> [].
Proof.
  intros Hn Hr Hm. unfold page.
  assert (Hin : In r (isort (filter (matches f) db))) by (apply isort_in, filter_In; auto).
  destruct (isort (filter (matches f) db)) as [|a l]; [contradiction|].
  destruct n; [lia|]. simpl. discriminate.
Qed.
(* downward closure needs sortedness, hence uniqueness of uuids *)
Theorem page_closed_ok db f n r r' :
  NoDup (map uuid db) -> In r db -> matches f r = true -> In r' (page db f n) -> key_lt r r' -> In r (page db f n).
Proof.
  intros Hnd Hr Hm Hr' Hlt. unfold page in *.
  eapply firstn_closed; eauto.
  - apply isort_sorted. apply nodup_filter_uuid; exact Hnd.
  - apply isort_in, filter_In; auto.
Qed.
Print Assumptions page_closed_ok.

(* The unconditional statement for the concrete server model *)
Theorem each_collection_complete_concrete fuel n evs db clock s' db' clock' alive' :
  1 <= n -> NoDup (map uuid db) -> (forall r, In r db -> 1 <= mtime r <= clock) ->
  scan page fuel n evs (db, clock, map uuid db) init = Some (s', (db', clock', alive')) ->
  forall r, In r db' -> In (uuid r) alive' -> In (uuid r) (visited s').
Proof.
  apply (each_collection_complete page).
  - intros; eapply page_in_ok; eauto.
  - intros; eapply page_closed_ok; eauto.
  - intros; apply page_sorted_ok; auto.
  - intros; eapply page_nonempty_ok; eauto.
Qed.
Print Assumptions each_collection_complete_concrete.
