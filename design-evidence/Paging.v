(* Prototype: EachCollection paging (services/keep-balance/collection.go) *)
From Coq Require Import List Arith Lia Bool Sorted.
Import ListNotations.

Record row := { uuid : nat; mtime : nat }.

Definition key_lt (a b : row) : Prop :=
  mtime a < mtime b \/ (mtime a = mtime b /\ uuid a < uuid b).
Definition key_ltb (a b : row) : bool :=
  (mtime a <? mtime b) || ((mtime a =? mtime b) && (uuid a <? uuid b)).

Inductive flt :=
| FNone
| FGe (t : nat) (notu : nat)     (* modified_at >= t, uuid != notu *)
| FEq (t : nat) (gtu : nat)      (* modified_at = t, uuid > gtu *)
| FGt (t : nat).                 (* modified_at > t *)

Definition matches (f : flt) (r : row) : bool :=
  match f with
  | FNone => true
  | FGe t u => (t <=? mtime r) && negb (uuid r =? u)
  | FEq t u => (mtime r =? t) && (u <? uuid r)
  | FGt t => t <? mtime r
  end.

Record st := {
  last : option row;
  ftime : nat;          (* filterTime; 0 = zero time *)
  exact : bool;
  cur : flt;
  visited : list nat
}.

Definition init : st := {| last := None; ftime := 0; exact := false; cur := FNone; visited := [] |}.

Definition skip (l : option row) (c : row) : bool :=
  match l with
  | Some l => (mtime l =? mtime c) && (uuid c <=? uuid l)
  | None => false
  end.

Definition visit (s : st) (c : row) : st :=
  if skip (last s) c then s
  else {| last := Some c; ftime := ftime s; exact := exact s; cur := cur s; visited := uuid c :: visited s |}.

Definition process (s : st) (pg : list row) : st := fold_left visit pg s.

Inductive outcome := Continue (s : st) | Done (s : st) | Bug.

Definition lastm (s : st) : nat := match last s with Some l => mtime l | None => 0 end.
Definition lastu (s : st) : nat := match last s with Some l => uuid l | None => 0 end.

(* the if/else-if chain after the item loop *)
Definition advance (s : st) (pg : list row) : outcome :=
  let s := process s pg in
  match pg, exact s with
  | [], false => Done s
  | _, _ =>
    if lastm s =? 0 then Bug
    else if (negb (length pg =? 0)) && (lastm s =? ftime s) then
      Continue {| last := last s; ftime := ftime s; exact := true;
                  cur := FEq (ftime s) (lastu s); visited := visited s |}
    else if exact s then
      Continue {| last := last s; ftime := ftime s; exact := false;
                  cur := FGt (ftime s); visited := visited s |}
    else
      Continue {| last := last s; ftime := lastm s; exact := false;
                  cur := FGe (lastm s) (lastu s); visited := visited s |}
  end.

(* ---------- key order facts ---------- *)
Lemma key_lt_irrefl a : ~ key_lt a a.
Proof. unfold key_lt; lia. Qed.
Lemma key_lt_trans a b c : key_lt a b -> key_lt b c -> key_lt a c.
Proof. unfold key_lt; lia. Qed.
Lemma key_tricho a b : uuid a <> uuid b -> key_lt a b \/ key_lt b a.
Proof. unfold key_lt; lia. Qed.

Definition above (l : option row) (r : row) : Prop :=
  match l with None => True | Some l => key_lt l r end.

Lemma skip_not_above l c : skip l c = true -> ~ above l c.
Proof.
  destruct l as [l|]; simpl; [|discriminate].
  rewrite andb_true_iff, Nat.eqb_eq, Nat.leb_le. unfold key_lt. lia.
Qed.

(* ---------- the server's page function, characterised ---------- *)
Section Scan.
Variable page : list row -> flt -> nat -> list row.
Hypothesis page_in : forall db f n r, In r (page db f n) -> In r db /\ matches f r = true.
Hypothesis page_closed : forall db f n r r', NoDup (map uuid db) ->
  In r db -> matches f r = true -> In r' (page db f n) -> key_lt r r' -> In r (page db f n).
Hypothesis page_sorted : forall db f n, NoDup (map uuid db) -> StronglySorted key_lt (page db f n).
Hypothesis page_nonempty : forall db f n r,
  1 <= n -> In r db -> matches f r = true -> page db f n <> [].

(* mode-specific part of the invariant *)
Definition mode_inv (s : st) (db : list row) (alive : list nat) : Prop :=
  match cur s with
  | FNone => last s = None /\ exact s = false
  | FGe t u => exact s = false /\ ftime s = t /\ exists l, last s = Some l /\ mtime l = t /\ uuid l = u
  | FEq t u => exact s = true /\ ftime s = t /\ exists l, last s = Some l /\ mtime l = t /\ uuid l = u
  | FGt t => exact s = false /\ ftime s = t /\ (exists l, last s = Some l /\ mtime l = t) /\
             forall r, In r db -> In (uuid r) alive -> In (uuid r) (visited s) \/ t < mtime r
  end.

Definition cover (s : st) (db : list row) (alive : list nat) : Prop :=
  forall r, In r db -> In (uuid r) alive -> In (uuid r) (visited s) \/ above (last s) r.

Definition Inv (s : st) (db : list row) (clock : nat) (alive : list nat) : Prop :=
  NoDup (map uuid db) /\
  (forall r, In r db -> 1 <= mtime r <= clock) /\
  lastm s <= clock /\ ftime s <= clock /\
  (forall l, last s = Some l -> In (uuid l) (visited s) /\ 1 <= mtime l) /\
  cover s db alive /\ mode_inv s db alive.

(* rows with the same uuid in a NoDup db are equal *)
Lemma nodup_uuid_eq db a b :
  NoDup (map uuid db) -> In a db -> In b db -> uuid a = uuid b -> a = b.
Proof.
  induction db as [|x xs IH]; simpl; intros Hnd Ha Hb He; [contradiction|].
  inversion Hnd as [|? ? Hnin Hnd']; subst.
  destruct Ha as [->|Ha], Hb as [->|Hb]; auto.
  - exfalso; apply Hnin; rewrite He; apply in_map; exact Hb.
  - exfalso; apply Hnin; rewrite <- He; apply in_map; exact Ha.
Qed.

(* an unvisited persistent row above the old cursor, not above a page item c, matches the filter *)
Lemma unvisited_matches s db alive r c n :
  mode_inv s db alive ->
  (forall l, last s = Some l -> In (uuid l) (visited s) /\ 1 <= mtime l) ->
  In r db -> In (uuid r) alive -> ~ In (uuid r) (visited s) ->
  above (last s) r ->
  In c (page db (cur s) n) -> key_lt r c ->
  matches (cur s) r = true.
Proof.
  intros Hm Hl Hr Ha Hnv Hab Hc Hrc.
  destruct (page_in _ _ _ _ Hc) as [_ Hcm].
  unfold mode_inv in Hm. destruct (cur s) as [|t u|t u|t]; simpl in *.
  - reflexivity.
  - destruct Hm as (_ & _ & l & Hl1 & Hl2 & Hl3). rewrite Hl1 in Hab; simpl in Hab.
    rewrite andb_true_iff, Nat.leb_le, negb_true_iff, Nat.eqb_neq.
    split; [unfold key_lt in Hab; lia|].
    intro E. apply Hnv. destruct (Hl _ Hl1) as [Hv _]. rewrite E, <- Hl3. exact Hv.
  - destruct Hm as (_ & _ & l & Hl1 & Hl2 & Hl3). rewrite Hl1 in Hab; simpl in Hab.
    rewrite andb_true_iff, Nat.eqb_eq, Nat.ltb_lt in *.
    unfold key_lt in *. lia.
  - destruct Hm as (_ & _ & _ & H2). destruct (H2 r Hr Ha) as [Hv|Hlt]; [contradiction|].
    apply Nat.ltb_lt; exact Hlt.
Qed.

(* processing the items of a page *)
Lemma process_cover s0 db alive n pre suf s :
  NoDup (map uuid db) ->
  mode_inv s0 db alive ->
  (forall l, last s0 = Some l -> In (uuid l) (visited s0) /\ 1 <= mtime l) ->
  cover s0 db alive ->
  page db (cur s0) n = pre ++ suf ->
  (* running state *)
  cur s = cur s0 -> exact s = exact s0 -> ftime s = ftime s0 ->
  (forall u, In u (visited s0) -> In u (visited s)) ->
  cover s db alive ->
  (forall r, In r pre -> In (uuid r) alive -> In (uuid r) (visited s)) ->
  (forall l, last s = Some l -> In (uuid l) (visited s) /\ 1 <= mtime l /\ (last s = last s0 \/ In l pre)) ->
  (forall r, In r db -> 1 <= mtime r) ->
  let s' := process s suf in
  cur s' = cur s0 /\ exact s' = exact s0 /\ ftime s' = ftime s0 /\
  (forall u, In u (visited s0) -> In u (visited s')) /\
  cover s' db alive /\
  (forall r, In r (pre ++ suf) -> In (uuid r) alive -> In (uuid r) (visited s')) /\
  (forall l, last s' = Some l -> In (uuid l) (visited s') /\ 1 <= mtime l /\ (last s' = last s0 \/ In l (pre ++ suf))).
Proof.
  intros Hnd Hm0 Hl0 Hc0 Hpg.
  revert pre s Hpg.
  induction suf as [|c suf IH]; intros pre s Hpg Hcur Hex Hft Hvis Hcov Hpre Hlast Hmt; simpl.
  - rewrite app_nil_r. repeat split; auto; apply Hlast; auto.
  - assert (Hcin : In c (page db (cur s0) n)) by (rewrite Hpg; apply in_or_app; right; left; reflexivity).
    destruct (page_in _ _ _ _ Hcin) as [Hcdb Hcm].
    replace (pre ++ c :: suf) with ((pre ++ [c]) ++ suf) in * by (rewrite <- app_assoc; reflexivity).
    destruct (skip (last s) c) eqn:Hsk.
    + (* skipped: c must already be visited if persistent *)
      assert (Ev : visit s c = s) by (unfold visit; rewrite Hsk; reflexivity).
      rewrite Ev. apply IH; auto.
      * intros r Hr Har. apply in_app_or in Hr. destruct Hr as [Hr|[<-|[]]]; [auto|].
        destruct (Hcov c Hcdb Har) as [Hv|Hab]; [exact Hv|].
        exfalso; eapply skip_not_above; eauto.
      * intros l Hl. destruct (Hlast l Hl) as (A & B & [C|C]); repeat split; auto.
        right; apply in_or_app; left; exact C.
    + (* visited *)
      assert (Ev : visit s c = {| last := Some c; ftime := ftime s; exact := exact s; cur := cur s; visited := uuid c :: visited s |})
        by (unfold visit; rewrite Hsk; reflexivity).
      rewrite Ev. apply IH; simpl; auto.
      * intros r Hr Har.
        destruct (Nat.eq_dec (uuid r) (uuid c)) as [E|NE]; [left; left; symmetry; exact E|].
        destruct (Hcov r Hr Har) as [Hv|Hab]; [left; right; exact Hv|].
        destruct (key_tricho r c NE) as [Hrc|Hcr]; [|right; exact Hcr].
        (* r below c, unvisited: it is in the page before c, hence in pre, hence visited *)
        left; right.
        destruct (in_dec Nat.eq_dec (uuid r) (visited s)) as [Hin|Hnin]; [exact Hin|exfalso].
        assert (Hnv0 : ~ In (uuid r) (visited s0)) by (intro X; apply Hnin; apply Hvis; exact X).
        assert (Hab0 : above (last s0) r).
        { destruct (Hc0 r Hr Har) as [X|X]; [contradiction|exact X]. }
        assert (Hmr : matches (cur s0) r = true).
        { eapply unvisited_matches; eauto. }
        assert (Hrin : In r (page db (cur s0) n)) by (eapply page_closed; eauto).
        rewrite Hpg in Hrin. rewrite <- app_assoc in Hrin. simpl in Hrin.
        apply in_app_or in Hrin. destruct Hrin as [Hrp|[Hrc'|Hrs]].
        -- apply Hnin. apply Hpre; auto.
        -- subst r. apply NE; reflexivity.
        -- (* r after c in a sorted list: contradiction with key_lt r c *)
           pose proof (page_sorted db (cur s0) n Hnd) as Hs. rewrite Hpg in Hs.
           rewrite <- app_assoc in Hs; simpl in Hs.
           assert (Hs2 : StronglySorted key_lt (c :: suf)).
           { clear - Hs. induction pre as [|p pre IHp]; simpl in Hs; [exact Hs|].
             inversion Hs; subst; auto. }
           inversion Hs2 as [|? ? _ Hall]; subst.
           rewrite Forall_forall in Hall. specialize (Hall r Hrs).
           eapply key_lt_irrefl. eapply key_lt_trans; eauto.
      * intros r Hr Har. apply in_app_or in Hr. destruct Hr as [Hr|[<-|[]]]; [right; auto|left; reflexivity].
      * intros l Hl. injection Hl as <-. repeat split; auto.
        right. apply in_or_app; right; left; reflexivity.
Qed.

(* ---------- one page request: advance preserves Inv, Done means covered ---------- *)
Lemma lastm_some s l : last s = Some l -> lastm s = mtime l.
Proof. unfold lastm; intros ->; reflexivity. Qed.
Lemma lastu_some s l : last s = Some l -> lastu s = uuid l.
Proof. unfold lastu; intros ->; reflexivity. Qed.

Lemma process_page s db clock alive n :
  Inv s db clock alive ->
  let s' := process s (page db (cur s) n) in
  cur s' = cur s /\ exact s' = exact s /\ ftime s' = ftime s /\
  (forall u, In u (visited s) -> In u (visited s')) /\
  cover s' db alive /\
  (forall l, last s' = Some l -> In (uuid l) (visited s') /\ 1 <= mtime l /\
       (last s' = last s \/ In l (page db (cur s) n))).
Proof.
  intros (Hnd & Hmt & Hlm & Hft & Hl & Hcov & Hm).
  assert (P := process_cover s db alive n [] (page db (cur s) n) s Hnd Hm Hl Hcov eq_refl
     eq_refl eq_refl eq_refl (fun u H => H) Hcov).
  cbv zeta in P. simpl in P.
  assert (H1 : forall r : row, False -> In (uuid r) alive -> In (uuid r) (visited s)) by (intros r []).
  assert (H2 : forall l, last s = Some l -> In (uuid l) (visited s) /\ 1 <= mtime l /\ (last s = last s \/ False)).
  { intros l Hl'. destruct (Hl l Hl') as [X Y]. repeat split; auto. }
  assert (H3 : forall r, In r db -> 1 <= mtime r) by (intros r Hr; apply (Hmt r Hr)).
  destruct (P H1 H2 H3) as (A & B & C & D & E & _ & G).
  cbv zeta. repeat split; auto; apply G; auto.
Qed.

Definition all_visited (s : st) (db : list row) (alive : list nat) : Prop :=
  forall r, In r db -> In (uuid r) alive -> In (uuid r) (visited s).

Lemma mode_exact_true s db alive :
  mode_inv s db alive -> exact s = true ->
  exists t u l, cur s = FEq t u /\ ftime s = t /\ last s = Some l /\ mtime l = t /\ uuid l = u.
Proof.
  unfold mode_inv. destruct (cur s) as [|t u|t u|t]; intros H E.
  - destruct H as [_ H]; congruence.
  - destruct H as [H _]; congruence.
  - destruct H as (_ & Hf & l & A & B & C). exists t, u, l; auto.
  - destruct H as [H _]; congruence.
Qed.

Lemma unvisited_matches_nonexact s db alive r :
  mode_inv s db alive -> exact s = false ->
  (forall l, last s = Some l -> In (uuid l) (visited s) /\ 1 <= mtime l) ->
  In r db -> In (uuid r) alive -> ~ In (uuid r) (visited s) -> above (last s) r ->
  matches (cur s) r = true.
Proof.
  intros Hm He Hl Hr Ha Hnv Hab. unfold mode_inv in Hm.
  destruct (cur s) as [|t u|t u|t]; simpl.
  - reflexivity.
  - destruct Hm as (_ & _ & l & Hl1 & Hl2 & Hl3). rewrite Hl1 in Hab; simpl in Hab.
    rewrite andb_true_iff, Nat.leb_le, negb_true_iff, Nat.eqb_neq.
    split; [unfold key_lt in Hab; lia|].
    intro E. apply Hnv. destruct (Hl _ Hl1) as [Hv _]. rewrite E, <- Hl3. exact Hv.
  - destruct Hm as [Hm _]; congruence.
  - destruct Hm as (_ & _ & _ & H2). destruct (H2 r Hr Ha) as [Hv|Hlt]; [contradiction|].
    apply Nat.ltb_lt; exact Hlt.
Qed.

Lemma lastm_zero_none s :
  (forall l, last s = Some l -> 1 <= mtime l) -> lastm s = 0 -> last s = None.
Proof.
  unfold lastm. destruct (last s) as [l|]; auto. intros H E. specialize (H l eq_refl). lia.
Qed.

Lemma Inv_build s db clock alive :
  NoDup (map uuid db) -> (forall r, In r db -> 1 <= mtime r <= clock) ->
  lastm s <= clock -> ftime s <= clock ->
  (forall l, last s = Some l -> In (uuid l) (visited s) /\ 1 <= mtime l) ->
  cover s db alive -> mode_inv s db alive -> Inv s db clock alive.
Proof. unfold Inv; intros A B C D E F G. split; [exact A|]. split; [exact B|]. split; [exact C|]. split; [exact D|]. split; [exact E|]. split; [exact F|exact G]. Qed.

Lemma advance_ok s db clock alive n :
  1 <= n ->
  Inv s db clock alive ->
  match advance s (page db (cur s) n) with
  | Continue s' => Inv s' db clock alive /\ (forall u, In u (visited s) -> In u (visited s'))
  | Done s' => all_visited s' db alive
  | Bug => True
  end.
Proof.
  intros Hn HI.
  pose proof (process_page s db clock alive n HI) as P. cbv zeta in P.
  destruct HI as (Hnd & Hmt & Hlm & Hft & Hl & Hcov & Hm).
  unfold advance.
  set (pg := page db (cur s) n) in *.
  set (s1 := process s pg) in *.
  destruct P as (Pc & Pe & Pf & Pv & Pcov & Pl).
  assert (Hl1 : forall l, last s1 = Some l -> In (uuid l) (visited s1) /\ 1 <= mtime l).
  { intros l E. destruct (Pl l E) as (A & B & _); auto. }
  assert (Hlm1 : lastm s1 <= clock).
  { unfold lastm. destruct (last s1) as [l|] eqn:E; [|lia].
    destruct (Pl l eq_refl) as (_ & _ & [X|X]).
    - unfold lastm in Hlm. rewrite <- X in Hlm. exact Hlm.
    - destruct (page_in _ _ _ _ X) as [Y _]. apply Hmt in Y. lia. }
  assert (Hm1 : mode_inv s1 db alive -> True) by auto.
  (* mode_inv transported to s1 where only visited/last changed is re-established per branch *)
  assert (Done_case : pg = [] -> exact s = false -> all_visited s db alive).
  { intros Epg Eex r Hr Ha.
    destruct (in_dec Nat.eq_dec (uuid r) (visited s)) as [Hin|Hnin]; [exact Hin|exfalso].
    destruct (Hcov r Hr Ha) as [X|Hab]; [contradiction|].
    assert (Hmr : matches (cur s) r = true) by (eapply unvisited_matches_nonexact; eauto).
    eapply page_nonempty; eauto. }
  assert (Branches :
    (pg = [] -> s1 = s) ->
    match (if lastm s1 =? 0 then Bug
     else if negb (length pg =? 0) && (lastm s1 =? ftime s1)
     then Continue {| last := last s1; ftime := ftime s1; exact := true; cur := FEq (ftime s1) (lastu s1); visited := visited s1 |}
     else if exact s1
     then Continue {| last := last s1; ftime := ftime s1; exact := false; cur := FGt (ftime s1); visited := visited s1 |}
     else Continue {| last := last s1; ftime := lastm s1; exact := false; cur := FGe (lastm s1) (lastu s1); visited := visited s1 |})
    with
    | Continue s' => Inv s' db clock alive /\ (forall u, In u (visited s) -> In u (visited s'))
    | Done s' => all_visited s' db alive
    | Bug => True
    end).
  { intros Hnil.
    destruct (lastm s1 =? 0) eqn:E0; [exact I|].
    apply Nat.eqb_neq in E0.
    assert (exists l, last s1 = Some l) as [l El].
    { destruct (last s1) as [l|] eqn:E; [eauto|]. exfalso; apply E0; unfold lastm; rewrite E; reflexivity. }
    destruct (negb (length pg =? 0) && (lastm s1 =? ftime s1)) eqn:E2.
    - (* enter / stay in exact mode *)
      apply andb_true_iff in E2. destruct E2 as [_ E2]. apply Nat.eqb_eq in E2.
      split; [|exact Pv].
      apply Inv_build; simpl; auto.
      + rewrite Pf; exact Hft.
      + unfold mode_inv; simpl. split; [reflexivity|]. split; [reflexivity|].
        exists l. split; [exact El|]. split.
        * rewrite <- E2. symmetry; apply lastm_some; exact El.
        * symmetry; apply lastu_some; exact El.
    - destruct (exact s1) eqn:Ex.
      + (* leave exact mode: page must have been empty *)
        assert (Exs : exact s = true) by (symmetry; exact Pe).
        destruct (mode_exact_true _ _ _ Hm Exs) as (t & u & l0 & Ec & Ef & El0 & Em0 & Eu0).
        assert (Hlt : lastm s1 = t).
        { rewrite (lastm_some _ _ El). destruct (Pl l El) as (_ & _ & [X|X]).
          - rewrite X in El. rewrite El0 in El. injection El as <-. exact Em0.
          - unfold pg in X. rewrite Ec in X. destruct (page_in _ _ _ _ X) as [_ Y]. simpl in Y.
            apply andb_true_iff in Y. destruct Y as [Y _]. apply Nat.eqb_eq in Y. exact Y. }
        assert (Epg : pg = []).
        { destruct pg as [|x xs]; [reflexivity|exfalso].
          simpl in E2. rewrite Pf, Ef, Hlt, Nat.eqb_refl in E2. discriminate. }
        specialize (Hnil Epg).
        split; [|exact Pv].
        apply Inv_build; simpl; auto.
        * rewrite Pf; exact Hft.
        * unfold mode_inv; simpl. split; [reflexivity|]. split; [reflexivity|]. split.
          -- exists l. split; auto. rewrite <- (lastm_some _ _ El). rewrite Hlt, Pf, Ef. reflexivity.
          -- intros r Hr Ha. rewrite Hnil.
             destruct (in_dec Nat.eq_dec (uuid r) (visited s)) as [Hin|Hnin]; [left; exact Hin|right].
             destruct (Hcov r Hr Ha) as [X|Hab]; [contradiction|].
             rewrite El0 in Hab; simpl in Hab. try rewrite Pf. rewrite Ef.
             destruct (Nat.lt_ge_cases t (mtime r)) as [G|G]; [exact G|exfalso].
             assert (Hmr : matches (cur s) r = true).
             { rewrite Ec; simpl. rewrite andb_true_iff, Nat.eqb_eq, Nat.ltb_lt. unfold key_lt in Hab. lia. }
             eapply page_nonempty; [exact Hn|exact Hr|exact Hmr|exact Epg].
      + (* normal case: filterTime := last.mtime *)
        split; [|exact Pv].
        apply Inv_build; simpl; auto.
        unfold mode_inv; simpl. split; [reflexivity|]. split; [reflexivity|].
        exists l. split; [exact El|]. split.
        -- symmetry; apply lastm_some; exact El.
        -- symmetry; apply lastu_some; exact El. }
  destruct pg as [|x xs] eqn:Epg.
  - assert (Hs : s1 = s) by reflexivity.
    destruct (exact s1) eqn:Ex.
    + apply Branches. intros _; exact Hs.
    + rewrite Hs. apply Done_case; [reflexivity|]. rewrite <- Hs. exact Ex.
  - apply Branches. intros X; discriminate.
Qed.

(* ---------- environment: concurrent edits between page requests ---------- *)
Inductive event := Modify (u : nat) | Add (u : nat) | Delete (u : nat).

Definition touch (clock u : nat) (r : row) : row :=
  if uuid r =? u then {| uuid := u; mtime := S clock |} else r.

Definition has_uuid (db : list row) (u : nat) : bool := existsb (fun r => uuid r =? u) db.

(* world = (db, clock, alive) *)
Definition apply_event (w : list row * nat * list nat) (e : event) : list row * nat * list nat :=
  let '(db, clock, alive) := w in
  match e with
  | Modify u => (map (touch clock u) db, S clock, alive)
  | Add u => if has_uuid db u then w else ({| uuid := u; mtime := S clock |} :: db, S clock, alive)
  | Delete u => (filter (fun r => negb (uuid r =? u)) db, clock, remove Nat.eq_dec u alive)
  end.

Lemma touch_uuid clock u r : uuid (touch clock u r) = uuid r.
Proof. unfold touch. destruct (uuid r =? u) eqn:E; simpl; auto. apply Nat.eqb_eq in E; auto. Qed.

Lemma map_touch_uuid clock u db : map uuid (map (touch clock u) db) = map uuid db.
Proof. induction db; simpl; [reflexivity|]. rewrite touch_uuid, IHdb; reflexivity. Qed.

Lemma above_fresh s clock r : lastm s <= clock -> mtime r = S clock -> above (last s) r.
Proof.
  unfold lastm, above. destruct (last s) as [l|]; auto. unfold key_lt. lia.
Qed.

Lemma event_inv s db clock alive e :
  Inv s db clock alive ->
  let '(db', clock', alive') := apply_event (db, clock, alive) e in
  Inv s db' clock' alive' /\ (forall u, In u alive' -> In u alive).
Proof.
  intros (Hnd & Hmt & Hlm & Hft & Hl & Hcov & Hm).
  destruct e as [u|u|u]; simpl.
  - (* Modify *)
    split; [|auto]. apply Inv_build; auto.
    + rewrite map_touch_uuid; exact Hnd.
    + intros r Hr. apply in_map_iff in Hr. destruct Hr as (r0 & <- & Hr0).
      unfold touch. destruct (uuid r0 =? u); simpl; [lia|]. specialize (Hmt r0 Hr0). lia.
    + intros r Hr Ha. apply in_map_iff in Hr. destruct Hr as (r0 & <- & Hr0).
      rewrite touch_uuid in *. unfold touch. destruct (uuid r0 =? u) eqn:E.
      * destruct (in_dec Nat.eq_dec (uuid r0) (visited s)); [left; auto|right].
        apply above_fresh with (clock := clock); auto.
      * apply Hcov; auto.
    + unfold mode_inv in *. destruct (cur s) as [|t x|t x|t]; auto.
      destruct Hm as (A & B & C & D). repeat split; auto.
      intros r Hr Ha. apply in_map_iff in Hr. destruct Hr as (r0 & <- & Hr0).
      rewrite touch_uuid in *. unfold touch. destruct (uuid r0 =? u) eqn:E.
      * simpl. right. lia.
      * apply D; auto.
  - (* Add *)
    destruct (has_uuid db u) eqn:Hh.
    + split; [|auto]. apply Inv_build; auto.
    + split; [|auto].
      assert (Hnin : ~ In u (map uuid db)).
      { intro X. apply in_map_iff in X. destruct X as (r & E & Hr).
        unfold has_uuid in Hh. assert (existsb (fun r => uuid r =? u) db = true).
        { apply existsb_exists. exists r. split; auto. apply Nat.eqb_eq; auto. }
        congruence. }
      apply Inv_build; auto.
      * simpl. constructor; auto.
      * intros r [<-|Hr]; simpl; [lia|]. specialize (Hmt r Hr). lia.
      * intros r [<-|Hr] Ha; simpl in *.
        -- right. apply above_fresh with (clock := clock); auto.
        -- apply Hcov; auto.
      * unfold mode_inv in *. destruct (cur s) as [|t x|t x|t]; auto.
        destruct Hm as (A & B & C & D). repeat split; auto.
        intros r [<-|Hr] Ha; simpl in *; [right; lia|apply D; auto].
  - (* Delete *)
    split.
    + apply Inv_build; auto.
      * clear - Hnd. induction db as [|a db IH]; simpl; [constructor|].
        inversion Hnd; subst. destruct (negb (uuid a =? u)); simpl; auto.
        constructor; auto. intro X. apply H1. apply in_map_iff in X. destruct X as (r & E & Hr).
        apply filter_In in Hr. destruct Hr as [Hr _]. apply in_map_iff. exists r; auto.
      * intros r Hr. apply filter_In in Hr. destruct Hr as [Hr _]. auto.
      * intros r Hr Ha. apply filter_In in Hr. destruct Hr as [Hr _].
        apply in_remove in Ha. destruct Ha as [Ha _]. apply Hcov; auto.
      * unfold mode_inv in *. destruct (cur s) as [|t x|t x|t]; auto.
        destruct Hm as (A & B & C & D). repeat split; auto.
        intros r Hr Ha. apply filter_In in Hr. destruct Hr as [Hr _].
        apply in_remove in Ha. destruct Ha as [Ha _]. apply D; auto.
    + intros x Hx. apply in_remove in Hx. tauto.
Qed.

Arguments apply_event : simpl never.

(* ---------- whole scan: events before each request, any number of requests ---------- *)
Definition world := (list row * nat * list nat)%type.

Fixpoint scan (fuel : nat) (n : nat) (evs : list (list event)) (w : world) (s : st)
  : option (st * world) :=
  match fuel with
  | O => None
  | S fuel =>
    let w := fold_left apply_event (hd [] evs) w in
    let '(db, clock, alive) := w in
    match advance s (page db (cur s) n) with
    | Bug => None
    | Done s' => Some (s', w)
    | Continue s' => scan fuel n (tl evs) w s'
    end
  end.

Lemma events_inv s evs : forall db clock alive,
  Inv s db clock alive ->
  let '(db', clock', alive') := fold_left apply_event evs (db, clock, alive) in
  Inv s db' clock' alive' /\ (forall u, In u alive' -> In u alive).
Proof.
  induction evs as [|e evs IH]; intros db clock alive HI; simpl; [auto|].
  pose proof (event_inv s db clock alive e HI) as H. revert H.
  destruct (apply_event (db, clock, alive) e) as [[db1 c1] a1].
  intros [H1 H2].
  specialize (IH db1 c1 a1 H1). revert IH.
  destruct (fold_left apply_event evs (db1, c1, a1)) as [[db2 c2] a2].
  intros [I1 I2]. split; auto.
Qed.

Theorem scan_complete fuel n : forall evs db clock alive s s' db' clock' alive',
  1 <= n ->
  Inv s db clock alive ->
  scan fuel n evs (db, clock, alive) s = Some (s', (db', clock', alive')) ->
  all_visited s' db' alive' /\ (forall u, In u alive' -> In u alive).
Proof.
  induction fuel as [|fuel IH]; intros evs db clock alive s s' db' clock' alive' Hn HI Hs; simpl in Hs; [discriminate|].
  pose proof (events_inv s (hd [] evs) db clock alive HI) as HE. revert HE Hs.
  destruct (fold_left apply_event (hd [] evs) (db, clock, alive)) as [[db1 c1] a1].
  intros [HI1 Hsub] Hs.
  pose proof (advance_ok s db1 c1 a1 n Hn HI1) as HA. revert HA Hs.
  destruct (advance s (page db1 (cur s) n)) as [s2|s2|]; intros HA Hs.
  - destruct HA as [HI2 _].
    destruct (IH _ _ _ _ _ _ _ _ _ Hn HI2 Hs) as [A B]. split; auto.
  - injection Hs as <- <- <- <-. split; auto.
  - discriminate.
Qed.

(* initial state *)
Lemma Inv_init db clock :
  NoDup (map uuid db) -> (forall r, In r db -> 1 <= mtime r <= clock) ->
  Inv init db clock (map uuid db).
Proof.
  intros A B. apply Inv_build; auto.
  - unfold lastm; simpl. lia.
  - unfold init; simpl. lia.
  - simpl. intros l X; discriminate.
  - intros r Hr Ha. right. exact I.
  - unfold mode_inv; simpl; auto.
Qed.

(* Every collection present at the start and never deleted was handed to the callback. *)
Corollary each_collection_complete fuel n evs db clock s' db' clock' alive' :
  1 <= n -> NoDup (map uuid db) -> (forall r, In r db -> 1 <= mtime r <= clock) ->
  scan fuel n evs (db, clock, map uuid db) init = Some (s', (db', clock', alive')) ->
  forall r, In r db' -> In (uuid r) alive' -> In (uuid r) (visited s').
Proof.
  intros Hn A B Hs. destruct (scan_complete _ _ _ _ _ _ _ _ _ _ _ Hn (Inv_init db clock A B) Hs) as [H _].
  exact H.
Qed.
End Scan.
Check each_collection_complete.
Print Assumptions each_collection_complete.
