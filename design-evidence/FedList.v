(* Prototype: C20 per-cluster loop of lib/controller/federation/list.go splitListRequest *)
From Coq Require Import List Arith Bool Lia.
Import ListNotations.

Definition mem (x : nat) (l : list nat) : bool := existsb (Nat.eqb x) l.
Lemma mem_In x l : mem x l = true <-> In x l.
Proof. unfold mem. rewrite existsb_exists. split; [intros (y & Hy & E); apply Nat.eqb_eq in E; subst; auto|intros H; exists x; split; [auto|apply Nat.eqb_refl]]. Qed.

Inductive outcome := Items (l : list nat) | Failed | OutOfFuel.

Section Loop.
Variable page : list nat -> nat -> option (list nat).   (* batch -> call number -> answer (None = error) *)

Fixpoint cloop (fuel : nat) (todo : list nat) (calls : nat) (acc : list nat) : outcome :=
  match fuel with
  | 0 => OutOfFuel
  | S f =>
    match todo with
    | [] => Items acc
    | _ =>
      match page todo calls with
      | None => Failed
      | Some [] => Items acc                       (* zero items: no more results *)
      | Some done =>
        let todo' := filter (fun u => negb (mem u done)) todo in
        if length todo' =? length todo then Failed  (* no progress *)
        else cloop f todo' (S calls) (acc ++ done)  (* every returned item is merged *)
      end
    end
  end.

Lemma filter_length_le {A} (p : A -> bool) l : length (filter p l) <= length l.
Proof. induction l as [|a l IH]; cbn [filter length]; [lia|]. destruct (p a); cbn [length]; lia. Qed.

(* termination: |todo| + 1 iterations always suffice *)
Theorem cloop_terminates fuel : forall todo calls acc, length todo < fuel -> cloop fuel todo calls acc <> OutOfFuel.
Proof.
  induction fuel as [|f IH]; intros todo calls acc Hf; [lia|]. cbn [cloop].
  destruct todo as [|t todo']; [discriminate|].
  destruct (page (t :: todo') calls) as [[|d ds]|]; try discriminate.
  set (td := filter _ _). pose proof (filter_length_le (fun u => negb (mem u (d :: ds))) (t :: todo')) as Hle. fold td in Hle.
  destruct (length td =? length (t :: todo')) eqn:E; [discriminate|]. apply Nat.eqb_neq in E.
  apply IH. lia.
Qed.

Lemma nodup_app (l1 l2 : list nat) :
  NoDup l1 -> NoDup l2 -> (forall x, In x l1 -> ~ In x l2) -> NoDup (l1 ++ l2).
Proof.
  induction l1 as [|a l1 IH]; intros H1 H2 Hd; cbn [app]; [exact H2|].
  inversion H1 as [|? ? Hn H1']; subst. constructor.
  - intro X. apply in_app_or in X. destruct X as [X|X]; [contradiction|]. apply (Hd a); [left; reflexivity|exact X].
  - apply IH; auto. intros x Hx. apply Hd. right; exact Hx.
Qed.

(* well-behaved backends: every page is duplicate-free and contains only requested uuids *)
Definition honest : Prop := forall batch calls d, page batch calls = Some d -> NoDup d /\ incl d batch.

Theorem exactly_once fuel : forall todo calls acc,
  honest -> NoDup todo -> NoDup acc -> (forall x, In x acc -> ~ In x todo) ->
  forall r, cloop fuel todo calls acc = Items r ->
  NoDup r /\ (forall x, In x r -> In x acc \/ In x todo).
Proof.
  induction fuel as [|f IH]; intros todo calls acc Hh Hnd Hna Hdisj r Hr; cbn [cloop] in Hr; [discriminate|].
  destruct todo as [|t todo'] eqn:Et; [injection Hr as <-; split; auto|]. rewrite <- Et in *.
  destruct (page todo calls) as [[|d ds]|] eqn:Ep; [injection Hr as <-; split; auto| |discriminate].
  destruct (Hh _ _ _ Ep) as [Hdn Hdi]. set (done := d :: ds) in *.
  set (td := filter (fun u => negb (mem u done)) todo) in *.
  destruct (length td =? length todo); [discriminate|].
  assert (Htd : forall x, In x td <-> In x todo /\ ~ In x done).
  { intros x. unfold td. rewrite filter_In. rewrite negb_true_iff. split.
    - intros [A B]. split; [exact A|]. intro X. apply mem_In in X. congruence.
    - intros [A B]. split; [exact A|]. destruct (mem x done) eqn:E; [apply mem_In in E; contradiction|reflexivity]. }
  destruct (IH td (S calls) (acc ++ done) Hh) with (r := r) as [A B]; auto.
  - apply NoDup_filter. exact Hnd.
  - apply nodup_app; auto. intros x Hx Hd. apply (Hdisj x Hx). apply Hdi. exact Hd.
  - intros x Hx Hxt. apply Htd in Hxt. destruct Hxt as [Ht Hn]. apply in_app_or in Hx. destruct Hx as [Hx|Hx]; [apply (Hdisj x Hx Ht)|contradiction].
  - split; [exact A|]. intros x Hx. destruct (B x Hx) as [H|H].
    + apply in_app_or in H. destruct H as [H|H]; [left; exact H|right; apply Hdi; exact H].
    + right. apply Htd in H. tauto.
Qed.
End Loop.

(* F9: a backend that repeats an already delivered item next to a new one *)
Definition bad_page (batch : list nat) (calls : nat) : option (list nat) :=
  match calls with 0 => Some [10] | _ => Some [10; 11] end.
Theorem exactly_once_refuted : cloop bad_page 5 [10; 11] 0 [] = Items [10; 10; 11].
Proof. vm_compute. reflexivity. Qed.
Print Assumptions exactly_once.
