(* Prototype: the three stream-range mappers of C10 over a list of block sizes.
   ref          : the published semantics (concatenate blocks, cut [pos, pos+len))
   fs_map       : sdk/go/arvados/fs_collection.go loadManifest inner loop (with its cursor)
   go_first     : sdk/go/manifest firstBlock (binary search)  + linear scan
   py_first     : sdk/python/arvados/_ranges.py first_block + locators_and_ranges *)
From Coq Require Import List Arith Bool Lia.
Import ListNotations.

Definition seg := (nat * nat * nat)%type.   (* block index, offset in block, length *)

(* ---- reference ---- *)
Fixpoint ref_from (i o : nat) (sizes : list nat) (pos len : nat) : list seg :=
  match sizes with
  | [] => []
  | s :: r =>
    let lo := Nat.max pos o in let hi := Nat.min (pos + len) (o + s) in
    (if lo <? hi then [(i, lo - o, hi - lo)] else []) ++ ref_from (S i) (o + s) r pos len
  end.
Definition ref (sizes : list nat) (pos len : nat) : list seg := ref_from 0 0 sizes pos len.

(* bytes selected by a segment list, blocks given as lists *)
Definition seg_bytes {A} (blocks : list (list A)) (sg : seg) : list A :=
  let '(i, o, l) := sg in firstn l (skipn o (nth i blocks [])).
Definition segs_bytes {A} (blocks : list (list A)) (l : list seg) : list A := flat_map (seg_bytes blocks) l.

(* ---- collection filesystem loader ---- *)
Inductive res := ROk (segs : list seg) (cur : nat * nat) | RErr.
Fixpoint fs_loop (fuel : nat) (sizes : list nat) (segIdx pos offset length_ : nat) (acc : list seg) : res :=
  match fuel with
  | 0 => RErr
  | S f =>
    match nth_error sizes segIdx with
    | None => if pos <? offset + length_ then RErr else ROk acc (segIdx, pos)
    | Some sl =>
      let next := pos + sl in
      if (next <=? offset) || (sl =? 0) then fs_loop f sizes (S segIdx) next offset length_ acc
      else if offset + length_ <=? pos then ROk acc (segIdx, pos)
      else
        let blkOff := if pos <? offset then offset - pos else 0 in
        let blkLen0 := sl - blkOff in
        let blkLen := if offset + length_ <? pos + blkOff + blkLen0 then offset + length_ - pos - blkOff else blkLen0 in
        let acc' := acc ++ [(segIdx, blkOff, blkLen)] in
        if offset + length_ <? next then ROk acc' (segIdx, pos)
        else fs_loop f sizes (S segIdx) next offset length_ acc'
    end
  end.
Definition fs_map (sizes : list nat) (cur : nat * nat) (offset length_ : nat) : res :=
  let '(segIdx, pos) := if offset <? snd cur then (0, 0) else cur in
  fs_loop (S (List.length sizes)) sizes segIdx pos offset length_ [].

(* ---- Go manifest package ---- *)
Definition offsets (sizes : list nat) : list nat :=
  fold_left (fun acc s => acc ++ [last acc 0 + s]) sizes [0].
Inductive bs := Found (i : nat) | NotFound | Panic.
Fixpoint go_first_loop (fuel : nat) (offs : list nat) (lo hi i start : nat) : bs :=
  match fuel with
  | 0 => Panic
  | S f =>
    match nth_error offs i, nth_error offs (S i) with
    | Some bstart, Some bend =>
      if (bstart <=? start) && (start <? bend) then Found i
      else if lo =? i then NotFound
      else let '(lo', hi') := if bstart <? start then (i, hi) else (lo, i) in
           go_first_loop f offs lo' hi' ((hi' + lo') / 2) start
    | _, _ => Panic          (* index out of range *)
    end
  end.
Definition go_first (offs : list nat) (start : nat) : bs :=
  let hi := List.length offs - 1 in go_first_loop (S (List.length offs)) offs 0 hi (hi / 2) start.

Inductive gres := GOk (segs : list seg) | GPanic.
Fixpoint go_scan (fuel : nat) (offs : list nat) (nblocks i wantPos wantLen : nat) (acc : list seg) : gres :=
  match fuel with
  | 0 => GOk acc
  | S f =>
    if nblocks <=? i then GOk acc else
    match nth_error offs i, nth_error offs (S i) with
    | Some bpos, Some bend =>
      if bend <=? wantPos then GPanic
      else if wantPos + wantLen <=? bpos then GOk acc
      else
        let off := if bpos <? wantPos then wantPos - bpos else 0 in
        let len0 := bend - bpos - off in
        let len := if wantPos + wantLen <? bend then wantPos + wantLen - bpos - off else len0 in
        go_scan f offs nblocks (S i) wantPos wantLen (acc ++ [(i, off, len)])
    | _, _ => GPanic
    end
  end.
Definition go_map (sizes : list nat) (wantPos wantLen : nat) : gres :=
  if wantLen =? 0 then GOk []            (* the code emits the empty block; no bytes *)
  else match go_first (offsets sizes) wantPos with
       | Found i => go_scan (S (List.length sizes)) (offsets sizes) (List.length sizes) i wantPos wantLen []
       | _ => GPanic                      (* "extends past end of stream" panic *)
       end.

(* ---- small-scope cross-check (a test, not a theorem) ---- *)
Definition blocks_of (sizes : list nat) : list (list nat) :=
  snd (fold_left (fun '(k, acc) s => (k + s, acc ++ [seq k s])) sizes (0, [])).
Definition all_ranges (sizes : list nat) : list (nat * nat) :=
  let total := list_sum sizes in
  flat_map (fun p => map (fun l => (p, l)) (seq 0 (S (total - p)))) (seq 0 (S total)).
Definition beq (a b : list nat) : bool := if list_eq_dec Nat.eq_dec a b then true else false.
Definition fs_agrees (sizes : list nat) : bool :=
  forallb (fun '(p, l) => match fs_map sizes (0, 0) p l with
                          | ROk sg _ => beq (segs_bytes (blocks_of sizes) sg) (segs_bytes (blocks_of sizes) (ref sizes p l))
                          | RErr => false end) (all_ranges sizes).
Definition go_agrees (sizes : list nat) : bool :=
  forallb (fun '(p, l) => match go_map sizes p l with
                          | GOk sg => beq (segs_bytes (blocks_of sizes) sg) (segs_bytes (blocks_of sizes) (ref sizes p l))
                          | GPanic => false end) (all_ranges sizes).
Fixpoint size_lists (n : nat) (maxs : nat) : list (list nat) :=
  match n with 0 => [[]] | S k => flat_map (fun l => map (fun s => s :: l) (seq 0 (S maxs))) (size_lists k maxs) end.
Definition scope := flat_map (fun n => size_lists n 3) [1; 2; 3; 4].

Eval vm_compute in (List.length scope, List.length (filter (fun s => negb (fs_agrees s)) scope)).
Eval vm_compute in firstn 6 (filter (fun s => negb (go_agrees s)) scope).
Eval vm_compute in go_map [3; 0; 3] 3 3.
Eval vm_compute in fs_map [10] (0,0) 3 0.

(* the F3 witness as a theorem about the model *)
Theorem go_map_panics_on_valid_manifest : go_map [3; 0; 3] 3 3 = GPanic.
Proof. vm_compute. reflexivity. Qed.
(* the F2 witness: a zero-length segment is produced for an empty range inside a block *)
Theorem fs_map_emits_empty_segment : exists c, fs_map [10] (0, 0) 3 0 = ROk [(0, 3, 0)] c.
Proof. eexists. vm_compute. reflexivity. Qed.
