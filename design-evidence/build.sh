#!/bin/sh
# Rebuild every prototype from clean, in dependency order (no _CoqProject: flat directory).
set -e
cd "$(dirname "$0")"
rm -f *.vo *.vok *.vos *.glob .*.aux
for f in Md5 Sha1 SortPerm SigMsg Keepstore Race Choose PutReplicas FedList Ranges Paging PagingPage \
         Salt RunQueue RunQueueProofs Balance BalanceRun BalanceSpec FileNode FileNodeRun FileNodeProofs; do
  timeout 600 coqc -Q . "" $f.v > $f.log 2>&1 || { echo "FAILED: $f"; tail -5 $f.log; exit 1; }
  echo "ok $f ($(grep -c 'Closed under the global context' $f.log) closed)"
done
! grep -n 'Admitted\|admit\.\|^Axiom\|^Parameter\|^Conjecture\|Unset Guard\|bypass_check' *.v
rm -f *.vo *.vok *.vos *.glob .*.aux *.log
