From Coq Require Import List Arith Lia Bool.
Import ListNotations.
Require Import FileNode.

(* prefix length of the first i segments *)
Definition pre_len (l : list seg) (i : nat) : nat := length (flat_map sbytes (firstn i l)).

Definition WF (fn : fnode) : Prop :=
  size fn = length (content fn) /\ Forall (fun s => 0 < slen s) (segs fn).

(* ptr consistent with its offset *)
Definition valid (fn : fnode) (p : ptr) : Prop :=
  off p = pre_len (segs fn) (idx p) + soff p /\
  ((idx p < length (segs fn) /\ soff p < slen (nthseg (segs fn) (idx p))) \/
   (idx p = length (segs fn) /\ soff p = 0)).

Definition overwrite (c : list byte) (o : nat) (d : list byte) : list byte :=
  firstn o c ++ d ++ skipn (o + length d) c.

Lemma flat_map_app' {A B} (f : A -> list B) l1 l2 : flat_map f (l1 ++ l2) = flat_map f l1 ++ flat_map f l2.
Proof. apply flat_map_app. Qed.

Lemma content_split l i :
  i < length l ->
  flat_map sbytes l = flat_map sbytes (firstn i l) ++ sbytes (nthseg l i) ++ flat_map sbytes (skipn (S i) l).
Proof.
  revert i. induction l as [|s l IH]; intros i Hi; simpl in *; [lia|].
  destruct i; simpl; [reflexivity|].
  rewrite <- app_assoc. f_equal. apply IH. lia.
Qed.

Lemma set_nth_content l i s :
  i < length l ->
  flat_map sbytes (set_nth l i s) = flat_map sbytes (firstn i l) ++ sbytes s ++ flat_map sbytes (skipn (S i) l).
Proof.
  intros Hi. unfold set_nth. rewrite flat_map_app. simpl. reflexivity.
Qed.

Lemma set_nth_length l i s : i < length l -> length (set_nth l i s) = length l.
Proof.
  intros Hi. unfold set_nth. rewrite app_length. cbn [length]. rewrite firstn_length.
  pose proof (skipn_length (S i) l). lia.
Qed.

Lemma nth_set_nth l i s : i < length l -> nthseg (set_nth l i s) i = s.
Proof.
  intros Hi. unfold nthseg, set_nth. rewrite app_nth2; rewrite firstn_length; [|lia].
  replace (i - Nat.min i (length l)) with 0 by lia. reflexivity.
Qed.

(* in-place write into a writable segment: the branch `else if curWritable` *)
Lemma mem_write_length b o p : o + length p <= length b -> length (mem_write b o p) = length b.
Proof.
  intros H. unfold mem_write. rewrite !app_length, firstn_length, skipn_length. lia.
Qed.

Lemma overwrite_within (pre mid post : list byte) o d :
  o + length d <= length mid ->
  overwrite (pre ++ mid ++ post) (length pre + o) d = pre ++ mem_write mid o d ++ post.
Proof.
  intros H. unfold overwrite, mem_write.
  rewrite firstn_app. rewrite firstn_all2 by lia.
  replace (length pre + o - length pre) with o by lia.
  rewrite firstn_app. replace (o - length mid) with 0 by lia. simpl. rewrite app_nil_r.
  rewrite <- !app_assoc. f_equal. f_equal. f_equal.
  rewrite skipn_app. rewrite skipn_all2 by lia. simpl.
  replace (length pre + o + length d - length pre) with (o + length d) by lia.
  rewrite skipn_app. replace (o + length d - length mid) with 0 by lia. simpl. reflexivity.
Qed.


Lemma Forall_set_nth (P : seg -> Prop) l i s :
  Forall P l -> P s -> Forall P (set_nth l i s).
Proof.
  intros Hl Hs. unfold set_nth. apply Forall_app. split.
  - rewrite Forall_forall in *. intros x Hx. apply Hl.
    rewrite <- (firstn_skipn i l). apply in_or_app; left; exact Hx.
  - constructor; auto. rewrite Forall_forall in *. intros x Hx. apply Hl.
    rewrite <- (firstn_skipn (S i) l). apply in_or_app; right; exact Hx.
Qed.

Lemma firstn_min_length {A} n (l : list A) : firstn (Nat.min n (length l)) l = firstn n l.
Proof.
  destruct (le_lt_dec n (length l)).
  - rewrite Nat.min_l by lia. reflexivity.
  - rewrite Nat.min_r by lia. rewrite !firstn_all2 by lia. reflexivity.
Qed.

Section Max.
Variable mb : nat.
Hypothesis mb_pos : 1 <= mb.

Lemma write_step_inplace fn p data :
  WF fn -> valid fn p -> data <> [] ->
  idx p < length (segs fn) -> is_mem (nthseg (segs fn) (idx p)) = true ->
  exists fn' p' n, write_step mb fn p data = (fn', p', n) /\
  1 <= n <= length data /\
  content fn' = overwrite (content fn) (off p) (firstn n data) /\
  WF fn' /\ off p' = off p + n /\ size fn' = size fn.
Proof.
  intros [Hsz Hpos] [Hoff Hv] Hd Hi Hm.
  destruct Hv as [[_ Hso]|[Hx _]]; [|lia].
  unfold write_step.
  assert (E1 : (idx p <? length (segs fn)) = true) by (apply Nat.ltb_lt; auto).
  rewrite E1, Hm. cbn [negb]. rewrite andb_false_r.
  set (s := nthseg (segs fn) (idx p)) in *.
  set (cando := firstn (slen s - soff p) (firstn mb data)).
  assert (Hc1 : 1 <= length cando).
  { unfold cando. rewrite !firstn_length. destruct data; [congruence|]. cbn [length]. clear - Hso mb_pos. unfold slen in *. lia. }
  assert (Hc2 : length cando <= slen s - soff p) by (unfold cando; rewrite firstn_length; lia).
  assert (Hc3 : firstn (length cando) data = cando).
  { unfold cando. rewrite !firstn_firstn. rewrite firstn_length. apply firstn_min_length. }
  assert (Hlen : length cando <= length data).
  { rewrite <- Hc3 at 1. rewrite firstn_length. lia. }
  set (l' := set_nth (segs fn) (idx p) (Mem (mem_write (sbytes s) (soff p) cando))).
  assert (Hcont : flat_map sbytes l' = overwrite (content fn) (off p) cando).
  { unfold l'. rewrite set_nth_content by auto. cbn [sbytes].
    unfold content. rewrite (content_split (segs fn) (idx p)) by auto.
    rewrite Hoff. unfold pre_len. fold s.
    rewrite overwrite_within; [reflexivity|unfold slen in *; lia]. }
  assert (Hwf : WF {| segs := l'; size := size fn; repacked := repacked fn |}).
  { split; cbn [segs size content].
    - unfold content. cbn [segs]. rewrite Hcont. unfold overwrite.
      rewrite !app_length, firstn_length, skipn_length. rewrite Hsz.
      assert (off p + length cando <= length (content fn)).
      { unfold content. rewrite (content_split (segs fn) (idx p)) by auto.
        rewrite !app_length. rewrite Hoff. unfold pre_len. fold s. unfold slen in *. lia. }
      lia.
    - unfold l'. apply Forall_set_nth; auto.
      unfold slen. cbn [sbytes]. rewrite mem_write_length; [|unfold slen in *; lia].
      rewrite Forall_forall in Hpos. apply (Hpos s). unfold s, nthseg. apply nth_In. auto. }
  destruct (slen (nthseg l' (idx p)) =? soff p + length cando);
    eexists _, _, _; (split; [reflexivity|]); cbn [off size];
    (split; [lia|]); rewrite Hc3; (split; [exact Hcont|]); (split; [exact Hwf|]); split; lia.
Qed.
End Max.
