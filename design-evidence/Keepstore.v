(* Prototype: C01 keepstore GetBlock / PutBlock / CompareAndTouch over a list of volumes.
   Block contents are abstract; H is an arbitrary digest function (Section variable). *)
From Coq Require Import List Arith Bool Lia.
Import ListNotations.

Section KS.
Variable content : Type.
Variable hash : Type.
Variable H : content -> hash.
Variable hash_eqb : hash -> hash -> bool.
Hypothesis hash_eqb_spec : forall a b, hash_eqb a b = true <-> a = b.
Variable content_eqb : content -> content -> bool.
Hypothesis content_eqb_spec : forall a b, content_eqb a b = true <-> a = b.

(* what a volume holds under a given block name: nothing, a readable copy, or an unreadable one *)
Inductive copy := Absent | Copy (c : content) | IOError.
Record vol := { ro : bool; lookup : hash -> copy }.

Inductive gerr := NotFound | DiskHashErr.
Inductive gres := GOk (c : content) | GErr (e : gerr).

(* GetBlock: try every readable volume in order; recompute the digest of what was read *)
Fixpoint get_block (vols : list vol) (h : hash) (err : gerr) : gres :=
  match vols with
  | [] => GErr err
  | v :: r =>
    match lookup v h with
    | Copy c => if hash_eqb (H c) h then GOk c else get_block r h DiskHashErr
    | _ => get_block r h err
    end
  end.

Theorem get_sound vols h c e : get_block vols h e = GOk c -> H c = h /\ exists v, In v vols /\ lookup v h = Copy c.
Proof.
  revert e. induction vols as [|v r IH]; intros e Hg; cbn [get_block] in Hg; [discriminate|].
  destruct (lookup v h) as [|c'|] eqn:El.
  - destruct (IH _ Hg) as (A & v' & B & C). split; [exact A|]. exists v'. split; [right; exact B|exact C].
  - destruct (hash_eqb (H c') h) eqn:E.
    + injection Hg as <-. apply hash_eqb_spec in E. split; [exact E|]. exists v. split; [left; reflexivity|exact El].
    + destruct (IH _ Hg) as (A & v' & B & C). split; [exact A|]. exists v'. split; [right; exact B|exact C].
  - destruct (IH _ Hg) as (A & v' & B & C). split; [exact A|]. exists v'. split; [right; exact B|exact C].
Qed.

(* an intact copy anywhere wins over corrupt, truncated, substituted or unreadable copies elsewhere *)
Theorem get_complete vols h e :
  (exists v c, In v vols /\ lookup v h = Copy c /\ H c = h) ->
  exists c, get_block vols h e = GOk c /\ H c = h.
Proof.
  revert e. induction vols as [|v r IH]; intros e (v0 & c0 & Hin & Hl & Hh); [contradiction|].
  cbn [get_block]. destruct Hin as [<-|Hin].
  - rewrite Hl. assert (E : hash_eqb (H c0) h = true) by (apply hash_eqb_spec; exact Hh).
    rewrite E. exists c0. auto.
  - assert (Hex : exists v c, In v r /\ lookup v h = Copy c /\ H c = h) by (exists v0, c0; auto).
    destruct (lookup v h) as [|c'|].
    + apply IH; exact Hex.
    + destruct (hash_eqb (H c') h) eqn:E; [|apply IH; exact Hex].
      exists c'. split; [reflexivity|apply hash_eqb_spec; exact E].
    + apply IH; exact Hex.
Qed.

Theorem get_error_otherwise vols h e :
  (forall v c, In v vols -> lookup v h = Copy c -> H c <> h) -> exists e', get_block vols h e = GErr e'.
Proof.
  revert e. induction vols as [|v r IH]; intros e Hno; cbn [get_block]; [eauto|].
  assert (Hr : forall v' c, In v' r -> lookup v' h = Copy c -> H c <> h) by (intros; eapply Hno; [right|]; eauto).
  destruct (lookup v h) as [|c'|] eqn:El; [apply IH; exact Hr| |apply IH; exact Hr].
  destruct (hash_eqb (H c') h) eqn:E; [|apply IH; exact Hr].
  exfalso. apply hash_eqb_spec in E. eapply Hno; [left; reflexivity|exact El|exact E].
Qed.

(* ---- PutBlock ---- *)
Inductive cmp := Same | NotExist | CorruptOnDisk | Collision | CmpIOErr.
Definition compare (v : vol) (h : hash) (data : content) : cmp :=
  match lookup v h with
  | Absent => NotExist
  | IOError => CmpIOErr
  | Copy c => if content_eqb c data then Same
              else if hash_eqb (H c) h then Collision else CorruptOnDisk
  end.

Definition store (v : vol) (h : hash) (data : content) : vol :=
  {| ro := ro v; lookup := fun h' => if hash_eqb h' h then Copy data else lookup v h' |}.

Inductive pres := POk | PHashErr | PCollision | PFull.
(* vols: all volumes in order; wr: index chosen by the round-robin counter among writable volumes.
   touch_ok models whether Touch succeeds on a volume that holds an identical copy. *)
Variable touch_ok : vol -> bool.

Fixpoint compare_and_touch (ws : list vol) (h : hash) (data : content) : option pres :=
  match ws with
  | [] => None
  | v :: r =>
    match compare v h data with
    | Collision => Some PCollision
    | Same => if touch_ok v then Some POk else compare_and_touch r h data
    | _ => compare_and_touch r h data
    end
  end.

Definition writable (vols : list vol) : list vol := filter (fun v => negb (ro v)) vols.

(* replace the k-th writable volume (round-robin choice) by the volume with the block stored *)
Fixpoint store_at (vols : list vol) (k : nat) (h : hash) (data : content) : list vol :=
  match vols with
  | [] => []
  | v :: r => if ro v then v :: store_at r k h data
              else match k with 0 => store v h data :: r | S k' => v :: store_at r k' h data end
  end.

Definition put_block (vols : list vol) (k : nat) (h : hash) (data : content) : pres * list vol :=
  if negb (hash_eqb (H data) h) then (PHashErr, vols)
  else match compare_and_touch (writable vols) h data with
       | Some r => (r, vols)
       | None => match writable vols with
                 | [] => (PFull, vols)
                 | ws => (POk, store_at vols (k mod length ws) h data)
                 end
       end.

Theorem put_sound vols k h data vols' : put_block vols k h data = (POk, vols') -> H data = h.
Proof.
  unfold put_block. destruct (hash_eqb (H data) h) eqn:E; cbn [negb]; [|discriminate].
  intros _. apply hash_eqb_spec. exact E.
Qed.

Lemma cat_ok_has_copy ws h data : compare_and_touch ws h data = Some POk ->
  exists v, In v ws /\ lookup v h = Copy data.
Proof.
  induction ws as [|v r IH]; cbn [compare_and_touch]; [discriminate|].
  unfold compare. destruct (lookup v h) as [|c|] eqn:El.
  - intros Hc. destruct (IH Hc) as (v' & A & B). exists v'; split; [right|]; auto.
  - destruct (content_eqb c data) eqn:Ec.
    + apply content_eqb_spec in Ec. subst c. destruct (touch_ok v).
      * intros _. exists v. split; [left; reflexivity|exact El].
      * intros Hc. destruct (IH Hc) as (v' & A & B). exists v'; split; [right|]; auto.
    + destruct (hash_eqb (H c) h); [discriminate|].
      intros Hc. destruct (IH Hc) as (v' & A & B). exists v'; split; [right|]; auto.
  - intros Hc. destruct (IH Hc) as (v' & A & B). exists v'; split; [right|]; auto.
Qed.

Lemma store_at_has vols : forall k h data, k < length (writable vols) ->
  exists v, In v (store_at vols k h data) /\ lookup v h = Copy data.
Proof.
  induction vols as [|v r IH]; intros k h data Hk; cbn [writable filter length] in Hk; [lia|].
  cbn [store_at]. destruct (ro v) eqn:Er; cbn [negb] in Hk.
  - destruct (IH k h data Hk) as (v' & A & B). exists v'. split; [right; exact A|exact B].
  - cbn [length] in Hk. destruct k as [|k'].
    + exists (store v h data). split; [left; reflexivity|].
      cbn [store lookup]. assert (E : hash_eqb h h = true) by (apply hash_eqb_spec; reflexivity). rewrite E. reflexivity.
    + destruct (IH k' h data ltac:(unfold writable; lia)) as (v' & A & B). exists v'. split; [right; exact A|exact B].
Qed.

(* once acknowledged, an intact copy is retrievable, whatever corrupt copies were already there *)
Theorem put_then_get vols k h data vols' e :
  put_block vols k h data = (POk, vols') ->
  exists c, get_block vols' h e = GOk c /\ H c = h.
Proof.
  intros Hp. assert (Hh := put_sound _ _ _ _ _ Hp). unfold put_block in Hp.
  destruct (hash_eqb (H data) h); cbn [negb] in Hp; [|discriminate].
  apply get_complete.
  destruct (compare_and_touch (writable vols) h data) as [r|] eqn:Ec.
  - injection Hp as -> <-. destruct (cat_ok_has_copy _ _ _ Ec) as (v & A & B).
    exists v, data. split; [|auto]. unfold writable in A. apply filter_In in A. tauto.
  - destruct (writable vols) as [|w ws] eqn:Ew; [discriminate|]. injection Hp as <-.
    assert (Hk : k mod length (w :: ws) < length (writable vols)).
    { rewrite Ew. apply Nat.mod_upper_bound. cbn [length]. lia. }
    destruct (store_at_has vols _ h data Hk) as (v & A & B). exists v, data. auto.
Qed.
End KS.
Print Assumptions put_then_get.
Print Assumptions get_complete.
