#!/bin/sh
# Build the framework from files on disk only (offline): full Coq build (.vo, no -vos) and warm the
# Go build cache for the harnessed packages.  Checks rebuild incrementally, so this only saves time.
set -e
cd "$(dirname "$0")"
mkdir -p build evidence replays
python3 - <<'PY'
import sys
sys.path.insert(0, '.')
from vlib import core
# -k: a file that does not build must not stop the others (each check rebuilds and judges its own targets)
ok, out, dt = core.coq_make([], keep_going=True)
print(out[-3000:])
print("coq build ok=%s in %.0fs" % (ok, dt))
sys.exit(0)
PY
export GOFLAGS=-mod=mod GOPROXY=off GOSUMDB=off GOTOOLCHAIN=local
for p in sdk/go/keepclient sdk/go/arvados sdk/go/manifest sdk/go/auth services/keep-balance services/keepstore lib/dispatchcloud lib/dispatchcloud/scheduler lib/dispatchcloud/worker lib/crunchrun; do
  (cd /repo/$p && go test -vet=off -count=1 -run '^$' . >/dev/null 2>&1 || true)
done
echo setup done
